import TempestVerif.Sc
import Mathlib.Analysis.SpecialFunctions.Log.Basic
import Mathlib.Analysis.SpecialFunctions.Sqrt
import Mathlib.Algebra.Order.Floor.Ring
import Mathlib.Tactic
/-
  A rounded-arithmetic instance of the scalar interface, for statements about floating-point
  evaluation ("stays finite", "no overflow") that exact-real theorems cannot express.

  `Rd rnd` is `ℝ` with every inexact operation passed through a rounding function `rnd`:
      add a b = rnd (a + b),  mul, sub, div, exp, log, sqrt likewise;
      neg, comparisons, floor and `ofNat` (integers below 2^53) are exact, as in IEEE-754.
  `RoundModel rnd u η Ω` is the standard model of floating-point arithmetic with gradual underflow:
      |x| ≤ Ω  →  |rnd x − x| ≤ u·|x| + η
  and NOTHING is assumed about `rnd x` for |x| > Ω (overflow: `rnd x` may be anything).  A bound
  proved for every such `rnd` therefore shows that the evaluation never rounds a value above Ω.
  For IEEE binary64 with libm's `exp`/`log` within one ulp: u = 2^-52, η = 2^-1074, Ω ≈ 1.797e308.
-/

structure Rd (rnd : ℝ → ℝ) where
  v : ℝ

namespace Rd
variable {rnd : ℝ → ℝ}

open Classical in
noncomputable instance instSc (rnd : ℝ → ℝ) : Sc (Rd rnd) where
  add a b := ⟨rnd (a.v + b.v)⟩
  sub a b := ⟨rnd (a.v - b.v)⟩
  mul a b := ⟨rnd (a.v * b.v)⟩
  div a b := ⟨rnd (a.v / b.v)⟩
  neg a := ⟨-a.v⟩
  ofNat n := ⟨(n : ℝ)⟩
  lit m e := ⟨rnd ((m : ℝ) / (10 : ℝ) ^ e)⟩
  lt a b := decide (a.v < b.v)
  le a b := decide (a.v ≤ b.v)
  floor a := ⟨(⌊a.v⌋ : ℝ)⟩
  isEven n := decide (⌊n.v⌋ % 2 = 0)

noncomputable instance instScT (rnd : ℝ → ℝ) : ScT (Rd rnd) where
  exp a := ⟨rnd (Real.exp a.v)⟩
  log a := ⟨rnd (Real.log a.v)⟩
  sqrt a := ⟨rnd (Real.sqrt a.v)⟩

@[simp] theorem add_v (a b : Rd rnd) : (Sc.add a b).v = rnd (a.v + b.v) := rfl
@[simp] theorem sub_v (a b : Rd rnd) : (Sc.sub a b).v = rnd (a.v - b.v) := rfl
@[simp] theorem mul_v (a b : Rd rnd) : (Sc.mul a b).v = rnd (a.v * b.v) := rfl
@[simp] theorem div_v (a b : Rd rnd) : (Sc.div a b).v = rnd (a.v / b.v) := rfl
@[simp] theorem neg_v (a : Rd rnd) : (Sc.neg a).v = -a.v := rfl
@[simp] theorem ofNat_v (n : Nat) : (Sc.ofNat n : Rd rnd).v = (n : ℝ) := rfl
@[simp] theorem zero_v : (Sc.zero : Rd rnd).v = 0 := by simp [Sc.zero]
@[simp] theorem one_v : (Sc.one : Rd rnd).v = 1 := by simp [Sc.one]
@[simp] theorem two_v : (Sc.two : Rd rnd).v = 2 := by simp [Sc.two]
@[simp] theorem lt_iff (a b : Rd rnd) : Sc.lt a b = true ↔ a.v < b.v := by simp [Sc.lt]
@[simp] theorem le_iff (a b : Rd rnd) : Sc.le a b = true ↔ a.v ≤ b.v := by simp [Sc.le]
@[simp] theorem exp_v (a : Rd rnd) : (ScT.exp a).v = rnd (Real.exp a.v) := rfl
@[simp] theorem log_v (a : Rd rnd) : (ScT.log a).v = rnd (Real.log a.v) := rfl
@[simp] theorem sqrt_v (a : Rd rnd) : (ScT.sqrt a).v = rnd (Real.sqrt a.v) := rfl

end Rd

/-- standard model of floating-point rounding, valid up to the overflow threshold `Ω` only -/
structure RoundModel (rnd : ℝ → ℝ) (u η Ω : ℝ) : Prop where
  u_nonneg : 0 ≤ u
  u_le : u ≤ 1 / 8
  η_nonneg : 0 ≤ η
  η_le : η ≤ 1 / 8
  err : ∀ x, |x| ≤ Ω → |rnd x - x| ≤ u * |x| + η

namespace RoundModel
variable {rnd : ℝ → ℝ} {u η Ω : ℝ}

theorem abs_rnd_le (rm : RoundModel rnd u η Ω) {x B : ℝ} (hx : |x| ≤ B) (hB : B ≤ Ω) :
    |rnd x| ≤ (1 + u) * B + η := by
  have h := rm.err x (hx.trans hB)
  have h1 : |rnd x| ≤ |rnd x - x| + |x| := by
    have := abs_add_le (rnd x - x) x
    simpa using this
  have h2 : u * |x| ≤ u * B := mul_le_mul_of_nonneg_left hx rm.u_nonneg
  nlinarith

/-- crude form with the constants `u, η ≤ 1/8` substituted (keeps later arithmetic linear) -/
theorem abs_rnd_le' (rm : RoundModel rnd u η Ω) {x B : ℝ} (hx : |x| ≤ B) (hB : B ≤ Ω) :
    |rnd x| ≤ 9 / 8 * B + 1 / 8 := by
  have h := rm.abs_rnd_le hx hB
  have hB0 : 0 ≤ B := (abs_nonneg x).trans hx
  have := mul_le_mul_of_nonneg_right rm.u_le hB0
  have := rm.η_le
  nlinarith

theorem lower (rm : RoundModel rnd u η Ω) {x : ℝ} (hx : |x| ≤ Ω) :
    x - |x| / 8 - 1 / 8 ≤ rnd x := by
  have h := rm.err x hx
  have h1 := (_root_.abs_le.mp h).1
  have := mul_le_mul_of_nonneg_right rm.u_le (abs_nonneg x)
  have := rm.η_le
  nlinarith

theorem upper (rm : RoundModel rnd u η Ω) {x : ℝ} (hx : |x| ≤ Ω) :
    rnd x ≤ x + |x| / 8 + 1 / 8 := by
  have h := rm.err x hx
  have h1 := (_root_.abs_le.mp h).2
  have := mul_le_mul_of_nonneg_right rm.u_le (abs_nonneg x)
  have := rm.η_le
  nlinarith

end RoundModel
