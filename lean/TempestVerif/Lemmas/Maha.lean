import Mathlib.LinearAlgebra.Matrix.NonsingularInverse
import Mathlib.Tactic
/-
  Mahalanobis quadratic form `vᵀ S⁻¹ v` on Mathlib matrices and its invariance under an
  invertible linear change of coordinates (shared by C19 — Student-t fit — and C20 — volume metric).
-/
namespace Lemmas.Maha
open Matrix
variable {d : Type} [Fintype d] [DecidableEq d]

/-- `vᵀ S⁻¹ v` (what `np.sum(v * np.linalg.solve(S, v))` computes for invertible `S`). -/
noncomputable def maha (S : Matrix d d ℝ) (v : d → ℝ) : ℝ := v ⬝ᵥ (S⁻¹ *ᵥ v)

/-- affine invariance: `(A v)ᵀ (A S Aᵀ)⁻¹ (A v) = vᵀ S⁻¹ v` for invertible `A` (no hypothesis on `S`:
    Mathlib's `⁻¹` is `0` for singular `S` on both sides). -/
theorem maha_affine (A S : Matrix d d ℝ) (v : d → ℝ) (hA : IsUnit A.det) :
    maha (A * S * Aᵀ) (A *ᵥ v) = maha S v := by
  unfold maha
  have hAt : IsUnit Aᵀ.det := by rwa [det_transpose]
  have hinv : (A * S * Aᵀ)⁻¹ = (Aᵀ)⁻¹ * S⁻¹ * A⁻¹ := by
    rw [Matrix.mul_inv_rev, Matrix.mul_inv_rev, Matrix.mul_assoc]
  rw [hinv, mulVec_mulVec, Matrix.mul_assoc, Matrix.mul_assoc, nonsing_inv_mul A hA, Matrix.mul_one,
    ← mulVec_mulVec, dotProduct_mulVec, ← vecMul_transpose, vecMul_vecMul, mul_nonsing_inv _ hAt, vecMul_one]

end Lemmas.Maha
