import Mathlib.Tactic
import Mathlib.MeasureTheory.Integral.Bochner.Set
import Mathlib.MeasureTheory.Measure.Lebesgue.Basic
import Mathlib.MeasureTheory.Constructions.Pi
/-
  Model-independent lemmas behind the resampling theorems (C06):
    * counting integers in a half-open interval / list counting,
    * ceilings shifted by an offset in [0,1) and their Lebesgue integral over the offset,
    * clamping two ordered numbers at 1,
    * a function of one coordinate integrated against a product of probability measures.
-/
namespace Lemmas.CeilComb
open MeasureTheory

/-! ### counting -/

theorem countP_range_Ico (A B : ℤ) (hA : 0 ≤ A) (hAB : A ≤ B) (n : ℕ) :
    (((List.range n).countP (fun (i : ℕ) => decide (A ≤ (i : ℤ) ∧ (i : ℤ) < B)) : ℕ) : ℤ)
      = min B n - min A n := by
  induction n with
  | zero => simp; omega
  | succ n ih =>
    rw [List.range_succ, List.countP_append]
    push_cast
    rw [ih]
    by_cases h : A ≤ (n : ℤ) ∧ (n : ℤ) < B
    · simp [h]; omega
    · simp [h]; omega

theorem count_of_forall2 (q : ℕ → Prop) [DecidablePred q] (j : ℕ) (is rs : List ℕ)
    (h : List.Forall₂ (fun i r => (r = j ↔ q i)) is rs) :
    rs.count j = is.countP (fun i => decide (q i)) := by
  induction h with
  | nil => simp
  | @cons a b l1 l2 hab _ ih =>
    rw [List.count_cons, List.countP_cons, ih]
    by_cases hq : q a
    · have : b = j := hab.mpr hq
      simp [hq, this]
    · have : ¬ b = j := fun e => hq (hab.mp e)
      simp [hq, this]

theorem forall2_mem {β γ : Type} {R : β → γ → Prop} {l1 : List β} {l2 : List γ}
    (h : List.Forall₂ R l1 l2) : List.Forall₂ (fun a b => a ∈ l1 ∧ R a b) l1 l2 := by
  induction h with
  | nil => exact .nil
  | cons hab _ ih =>
    exact .cons ⟨List.mem_cons_self, hab⟩
      (ih.imp (fun _ _ h => ⟨List.mem_cons_of_mem _ h.1, h.2⟩))

/-- counting the entries `≤ u` of a non-decreasing sequence -/
theorem countP_mono_range (f : ℕ → ℝ) (hf : Monotone f) (u : ℝ) (m : ℕ) :
    (List.range m).countP (fun k => decide (f k ≤ u)) ≤ m ∧
    (∀ k < (List.range m).countP (fun k => decide (f k ≤ u)), f k ≤ u) ∧
    ((List.range m).countP (fun k => decide (f k ≤ u)) < m →
      u < f ((List.range m).countP (fun k => decide (f k ≤ u)))) := by
  induction m with
  | zero => simp
  | succ m ih =>
    rw [List.range_succ, List.countP_append]
    obtain ⟨ih1, ih2, ih3⟩ := ih
    by_cases hm : f m ≤ u
    · have hc : (List.range m).countP (fun k => decide (f k ≤ u)) = m := by
        by_contra hne
        have hlt : (List.range m).countP (fun k => decide (f k ≤ u)) < m := by omega
        have h1 := ih3 hlt
        have h2 := hf (le_of_lt hlt)
        linarith
      rw [hc]
      simp only [List.countP_cons, List.countP_nil, hm, decide_true, if_true]
      refine ⟨by omega, ?_, fun h => by omega⟩
      intro k hk
      exact le_trans (hf (by omega)) hm
    · simp only [List.countP_cons, List.countP_nil, hm, decide_false, Bool.false_eq_true, if_false,
        Nat.add_zero]
      refine ⟨by omega, ih2, ?_⟩
      intro h
      by_cases hlt : (List.range m).countP (fun k => decide (f k ≤ u)) < m
      · exact ih3 hlt
      · have : (List.range m).countP (fun k => decide (f k ≤ u)) = m := by omega
        rw [this]; exact not_le.mp hm

/-- `count` as a sum of 0/1 terms -/
theorem countP_eq_sum_map {β : Type} (p : β → Prop) [DecidablePred p] (l : List β) :
    ((l.countP (fun x => decide (p x)) : ℕ) : ℝ) = (l.map (fun x => if p x then (1 : ℝ) else 0)).sum := by
  induction l with
  | nil => simp
  | cons a l ih =>
    rw [List.countP_cons, List.map_cons, List.sum_cons, ← ih]
    by_cases h : p a <;> simp [h]; ring

/-! ### ceilings -/

/-- `⌈a + y⌉ − ⌈a⌉` is `⌊y⌋` or `⌈y⌉` -/
theorem ceil_diff (a y : ℝ) : ⌈a + y⌉ - ⌈a⌉ = ⌊y⌋ ∨ ⌈a + y⌉ - ⌈a⌉ = ⌈y⌉ := by
  have h1 := Int.ceil_lt_add_one a
  have h2 := Int.le_ceil a
  have h3 := Int.ceil_lt_add_one (a + y)
  have h4 := Int.le_ceil (a + y)
  have h5 := Int.floor_le y
  have h8 := Int.le_ceil y
  have h9 := Int.ceil_le_floor_add_one y
  have hA : (⌊y⌋ : ℝ) < (⌈a + y⌉ - ⌈a⌉ : ℤ) + 1 := by push_cast; linarith
  have hB : ((⌈a + y⌉ - ⌈a⌉ : ℤ) : ℝ) < ⌈y⌉ + 1 := by push_cast; linarith
  have hA' : ⌊y⌋ < (⌈a + y⌉ - ⌈a⌉) + 1 := by exact_mod_cast hA
  have hB' : (⌈a + y⌉ - ⌈a⌉) < ⌈y⌉ + 1 := by exact_mod_cast hB
  omega

/-- `⌈b⌉ − ⌈a⌉` is within 1 of `b − a` -/
theorem ceil_sub_ceil_near (a b : ℝ) : |((⌈b⌉ - ⌈a⌉ : ℤ) : ℝ) - (b - a)| < 1 := by
  have h1 := Int.ceil_lt_add_one a
  have h2 := Int.le_ceil a
  have h3 := Int.ceil_lt_add_one b
  have h4 := Int.le_ceil b
  rw [abs_lt]; push_cast; constructor <;> linarith

/-- shifting by an offset `u ∈ [0,1)` lowers the ceiling by one exactly on the interval `[1 − δ, 1)`, `δ = ⌈x⌉ − x` -/
theorem ceil_sub_offset (x u : ℝ) (h0 : 0 ≤ u) (h1 : u < 1) :
    ⌈x - u⌉ = ⌈x⌉ - (if 1 - ((⌈x⌉ : ℝ) - x) ≤ u then 1 else 0) := by
  have hc1 := Int.ceil_lt_add_one x
  have hc2 := Int.le_ceil x
  split
  · rename_i h
    rw [Int.ceil_eq_iff]; push_cast; constructor <;> linarith
  · rename_i h
    rw [Int.ceil_eq_iff]; push_cast; rw [not_le] at h; constructor <;> linarith

/-- the interval length `δ = ⌈x⌉ − x` is in `[0,1)`, so `[1 − δ, 1)` lies inside `[0,1)` -/
theorem delta_range (x : ℝ) : 0 ≤ (⌈x⌉ : ℝ) - x ∧ (⌈x⌉ : ℝ) - x < 1 := by
  have hc1 := Int.ceil_lt_add_one x
  have hc2 := Int.le_ceil x
  constructor <;> linarith

/-! ### integrals over the offset -/

theorem integral_step (c : ℝ) (hc0 : 0 ≤ c) (hc1 : c ≤ 1) :
    ∫ u in Set.Ico (0:ℝ) 1, (if c ≤ u then (1:ℝ) else 0) = 1 - c := by
  have e : (fun u : ℝ => if c ≤ u then (1:ℝ) else 0) = (Set.Ici c).indicator (fun _ => (1:ℝ)) := by
    funext u; simp [Set.indicator, Set.mem_Ici]
  rw [e, setIntegral_indicator measurableSet_Ici]
  have : Set.Ico (0:ℝ) 1 ∩ Set.Ici c = Set.Ico c 1 := by
    ext x; simp only [Set.mem_inter_iff, Set.mem_Ico, Set.mem_Ici]; constructor
    · rintro ⟨⟨_, h2⟩, h3⟩; exact ⟨h3, h2⟩
    · rintro ⟨h1, h2⟩; exact ⟨⟨le_trans hc0 h1, h2⟩, h1⟩
  rw [this, setIntegral_const, Real.volume_real_Ico_of_le hc1]; simp

theorem integrable_step (c : ℝ) :
    IntegrableOn (fun u : ℝ => if c ≤ u then (1:ℝ) else 0) (Set.Ico (0:ℝ) 1) := by
  have e : (fun u : ℝ => if c ≤ u then (1:ℝ) else 0) = (Set.Ici c).indicator (fun _ => (1:ℝ)) := by
    funext u; simp [Set.indicator, Set.mem_Ici]
  rw [e]
  exact (integrableOn_const (by simp)).indicator measurableSet_Ici

theorem ceil_sub_eqOn (x : ℝ) :
    Set.EqOn (fun u : ℝ => ((⌈x - u⌉ : ℤ) : ℝ))
      (fun u => (⌈x⌉ : ℝ) - (if 1 - ((⌈x⌉ : ℝ) - x) ≤ u then (1:ℝ) else 0)) (Set.Ico (0:ℝ) 1) := by
  intro u hu
  simp only
  rw [ceil_sub_offset x u hu.1 hu.2]
  push_cast
  split <;> simp

theorem integrable_ceil_sub (x : ℝ) :
    IntegrableOn (fun u : ℝ => ((⌈x - u⌉ : ℤ) : ℝ)) (Set.Ico (0:ℝ) 1) := by
  have i1 : IntegrableOn (fun _ : ℝ => (⌈x⌉ : ℝ)) (Set.Ico (0:ℝ) 1) := integrableOn_const (by simp)
  exact (i1.sub (integrable_step _)).congr_fun (ceil_sub_eqOn x).symm measurableSet_Ico

/-- the mean of `⌈x − u⌉` over a uniform offset `u ∈ [0,1)` is `x` -/
theorem integral_ceil_sub (x : ℝ) : ∫ u in Set.Ico (0:ℝ) 1, ((⌈x - u⌉ : ℤ) : ℝ) = x := by
  have hd := delta_range x
  have i1 : IntegrableOn (fun _ : ℝ => (⌈x⌉ : ℝ)) (Set.Ico (0:ℝ) 1) := integrableOn_const (by simp)
  rw [setIntegral_congr_fun measurableSet_Ico (ceil_sub_eqOn x)]
  have e := integral_sub (μ := volume.restrict (Set.Ico (0:ℝ) 1)) (f := fun _ => (⌈x⌉ : ℝ))
    (g := fun u => if 1 - ((⌈x⌉ : ℝ) - x) ≤ u then (1:ℝ) else 0) i1 (integrable_step _)
  rw [e, integral_step _ (by linarith) (by linarith), setIntegral_const,
    Real.volume_real_Ico_of_le (by norm_num)]
  simp

/-- the mean of `⌈b − u⌉ − ⌈a − u⌉` over a uniform offset is `b − a` -/
theorem integral_ceil_diff (a b : ℝ) :
    ∫ u in Set.Ico (0:ℝ) 1, (((⌈b - u⌉ - ⌈a - u⌉ : ℤ) : ℝ)) = b - a := by
  have e := integral_sub (μ := volume.restrict (Set.Ico (0:ℝ) 1)) (f := fun u => ((⌈b - u⌉ : ℤ) : ℝ))
    (g := fun u => ((⌈a - u⌉ : ℤ) : ℝ)) (integrable_ceil_sub b) (integrable_ceil_sub a)
  simp only [Int.cast_sub]
  rw [e, integral_ceil_sub, integral_ceil_sub]

/-! ### clamping at 1 -/

/-- clamping two ordered non-negative numbers at 1 shrinks their distance by at most the overshoot of the larger -/
theorem clamp_diff (p q : ℝ) (hpq : p ≤ q) :
    0 ≤ (q - p) - (min q 1 - min p 1) ∧ (q - p) - (min q 1 - min p 1) ≤ max (q - 1) 0 := by
  rcases le_total q 1 with hq | hq
  · rw [min_eq_left hq, min_eq_left (le_trans hpq hq), max_eq_right (by linarith)]
    constructor <;> linarith
  · rcases le_total p 1 with hp | hp
    · rw [min_eq_right hq, min_eq_left hp, max_eq_left (by linarith)]
      constructor <;> linarith
    · rw [min_eq_right hq, min_eq_right hp, max_eq_left (by linarith)]
      constructor <;> linarith

/-! ### one coordinate of a product of probability measures -/

instance uniform01_prob : IsProbabilityMeasure (volume.restrict (Set.Ico (0:ℝ) 1)) :=
  ⟨by simp [Real.volume_Ico]⟩

/-- a function of the `k`-th coordinate integrates against a product of probability measures as against the `k`-th factor -/
theorem integral_pi_eval {n : ℕ} (μ : Measure ℝ) [IsProbabilityMeasure μ] (f : ℝ → ℝ)
    (hf : AEStronglyMeasurable f μ) (k : Fin n) :
    ∫ x : Fin n → ℝ, f (x k) ∂(Measure.pi fun _ => μ) = ∫ t, f t ∂μ := by
  have hmp := measurePreserving_eval (μ := fun _ : Fin n => μ) k
  have hf' : AEStronglyMeasurable f (Measure.map (Function.eval k) (Measure.pi fun _ : Fin n => μ)) := by
    rw [hmp.map_eq]; exact hf
  have := integral_map hmp.measurable.aemeasurable hf'
  rw [hmp.map_eq] at this
  exact this.symm

end Lemmas.CeilComb
