import TempestVerif.Model.ModeStatsNum
import TempestVerif.Lemmas.ScReal
import TempestVerif.Lemmas.GaussJordan
import TempestVerif.Lemmas.CholeskyPD
import Mathlib.Algebra.BigOperators.Fin
import Mathlib.Algebra.BigOperators.Intervals
import Mathlib.Tactic
/-
  The row-by-row Cholesky factorisation of `Model/ModeStatsNum.lean` (`chol`, the model of `np.linalg.cholesky` = LAPACK
  `potrf`, lower) evaluated at `ℝ` on the list form `matOf S` of a matrix:

  * `chol_matOf_iff`    : `chol (matOf S) = some M  ↔  every pivot is positive ∧ M = matOf (cholMat S)` — the list algorithm
                          computes the index recursion `cholF` (a computation lemma per loop: `cholOff_eq`, `cholRow_iff`,
                          `cholRows_iff`);
  * `chol_matOf_sound`  : whenever `chol` answers, the answer is a Cholesky factor in the sense of `potrf`
                          (`Lemmas.CholeskyPD.IsCholeskyFactor`: lower-triangular, positive diagonal, `L Lᵀ = symLower S`);
  * `chol_matOf_posDef` : every (symmetric) positive definite matrix is factorised — pivot `i` is `vᵀ S v` for the non-zero
                          `v = G⁻ᵀ e_i`, `G` = the rows computed so far completed by unit rows (`piv_pos_step`);
  * `isFactor_unique`   : the factor is unique, so ANY routine meeting `potrf`'s contract returns `cholMat S`;
  * section Bridge      : the list linear algebra of `Model/Kernel.lean` (`dotv`, `matVec`, `columns`, `vecMat`, `qform`, `vsub`,
                          `tpcnProposal`, `rwmProposal`) on `List.ofFn` data is Mathlib's; `inv_matOf_eq`: an answer of the
                          model's `inv` is `matOf S⁻¹`.
-/
namespace Lemmas.CholFactor
open Matrix Model.ModeStatsNum Finset

/-- the factor as a function of the indices -/
noncomputable def cholF (A : ℕ → ℕ → ℝ) : ℕ → ℕ → ℝ
  | i, j =>
    if j < i then (A i j - ∑ k : Fin j, cholF A i k * cholF A j k) / cholF A j j
    else if j = i then Real.sqrt (A i i - ∑ k : Fin i, cholF A i k * cholF A i k)
    else 0
termination_by i j => (i, j)
decreasing_by
  all_goals first
    | (apply Prod.Lex.right; omega)
    | (apply Prod.Lex.left; omega)

/-- the pivot of row `i` -/
noncomputable def piv (A : ℕ → ℕ → ℝ) (i : ℕ) : ℝ := A i i - ∑ k ∈ range i, cholF A i k * cholF A i k

variable (A : ℕ → ℕ → ℝ)

theorem cholF_lower {i j : ℕ} (h : i < j) : cholF A i j = 0 := by
  rw [cholF]; simp [not_lt.2 h.le, h.ne']

theorem cholF_diag (i : ℕ) : cholF A i i = Real.sqrt (piv A i) := by
  rw [cholF]; simp [piv, Finset.sum_range]

theorem cholF_off {i j : ℕ} (h : j < i) :
    cholF A i j = (A i j - ∑ k ∈ range j, cholF A i k * cholF A j k) / cholF A j j := by
  rw [cholF]; simp [h, Finset.sum_range]

theorem foldl_add (l : List ℝ) (a : ℝ) : l.foldl Sc.add a = a + l.sum := by
  induction l generalizing a with
  | nil => simp
  | cons x xs ih => simp [List.foldl_cons, ih, add_assoc]

theorem sum_map_range (f : ℕ → ℝ) (n : ℕ) : ((List.range n).map f).sum = ∑ k ∈ range n, f k := by
  induction n with
  | zero => simp
  | succ n ih => rw [List.range_succ, List.map_append, List.sum_append, ih, Finset.sum_range_succ]; simp

/-- `dotv` of two index-generated lists, the first one the shorter -/
theorem dotv_map_range (f g : ℕ → ℝ) {j n : ℕ} (h : j ≤ n) :
    Model.Kernel.dotv ((List.range j).map f) ((List.range n).map g) = ∑ k ∈ range j, f k * g k := by
  unfold Model.Kernel.dotv Sc.sum
  rw [foldl_add, ← sum_map_range]
  simp only [ScReal.zero_def, zero_add]
  congr 1
  apply List.ext_getElem
  · simp [h]
  · intro k h1 h2
    simp

/-! ### the list algorithm computes `cholF` -/

noncomputable def pre (i j : ℕ) : List ℝ := (List.range j).map (cholF A i)
noncomputable def rowL (d i : ℕ) : List ℝ := (List.range d).map (cholF A i)
def rowA (d i : ℕ) : List ℝ := (List.range d).map (A i)

theorem pre_succ (i j : ℕ) : pre A i (j + 1) = pre A i j ++ [cholF A i j] := by
  simp [pre, List.range_succ]

theorem cholOff_eq {d i : ℕ} (hi : i < d) : ∀ (n j0 : ℕ), j0 + n ≤ i →
    cholOff (rowA A d i) ((List.range' j0 n).map (rowL A d)) (pre A i j0) = some (pre A i (j0 + n)) := by
  intro n
  induction n with
  | zero => intro j0 _; simp [cholOff]
  | succ n ih =>
    intro j0 h
    have hj0 : j0 < i := by omega
    have hlen : (pre A i j0).length = j0 := by simp [pre]
    have ha : (rowA A d i)[j0]? = some (A i j0) := by
      simp [rowA, List.getElem?_map, List.getElem?_range (show j0 < d by omega)]
    have hl : (rowL A d j0)[j0]? = some (cholF A j0 j0) := by
      simp [rowL, List.getElem?_map, List.getElem?_range (show j0 < d by omega)]
    rw [List.range'_succ, List.map_cons, cholOff, hlen, ha, hl]
    simp only [ScReal.div_def, ScReal.sub_def]
    have hd : Model.Kernel.dotv (pre A i j0) (rowL A d j0) = ∑ k ∈ range j0, cholF A i k * cholF A j0 k :=
      dotv_map_range _ _ (by omega)
    rw [hd, ← cholF_off A hj0, ← pre_succ, ih (j0 + 1) (by omega)]
    congr 2; omega


theorem rowL_split {d i : ℕ} (hi : i < d) :
    pre A i i ++ [Real.sqrt (piv A i)] ++ List.replicate (d - i - 1) (0 : ℝ) = rowL A d i := by
  apply List.ext_getElem
  · simp [pre, rowL]; omega
  · intro k h1 h2
    simp only [pre, rowL, List.getElem_map, List.getElem_range]
    rcases lt_trichotomy k i with h | h | h
    · rw [List.getElem_append_left (by simp; omega), List.getElem_append_left (by simpa using h)]
      simp
    · subst h
      rw [List.getElem_append_left (by simp), List.getElem_append_right (by simp)]
      simp [cholF_diag]
    · rw [List.getElem_append_right (by simp; omega)]
      simp [cholF_lower A h]

theorem cholRow_iff {d i : ℕ} (hi : i < d) (r : List ℝ) :
    cholRow d ((List.range i).map (rowL A d)) (rowA A d i) = some r ↔ 0 < piv A i ∧ r = rowL A d i := by
  have hoff := cholOff_eq A hi i 0 (by omega)
  have hpre0 : pre A i 0 = [] := by simp [pre]
  rw [hpre0, zero_add, ← List.range_eq_range'] at hoff
  have ha : (rowA A d i)[i]? = some (A i i) := by
    simp [rowA, List.getElem?_map, List.getElem?_range hi]
  have hd : Model.Kernel.dotv (pre A i i) (pre A i i) = ∑ k ∈ range i, cholF A i k * cholF A i k :=
    dotv_map_range _ _ le_rfl
  unfold cholRow
  simp only [hoff, List.length_map, List.length_range, ha, ScReal.sub_def, hd, ScReal.zero_def, ScReal.sqrt_def]
  have hp : A i i - ∑ k ∈ range i, cholF A i k * cholF A i k = piv A i := rfl
  rw [hp]
  by_cases h : 0 < piv A i
  · simp only [ScReal.lt_def, h, if_true, true_and, Option.some.injEq, rowL_split A hi]
    exact eq_comm
  · simp [h]


theorem cholRows_iff {d : ℕ} : ∀ (n i : ℕ), i + n ≤ d → ∀ M : List (List ℝ),
    (cholRows d ((List.range' i n).map (rowA A d)) ((List.range i).map (rowL A d)) = some M ↔
      (∀ t, t < n → 0 < piv A (i + t)) ∧ M = (List.range (i + n)).map (rowL A d)) := by
  intro n
  induction n with
  | zero => intro i _ M; simp [cholRows, eq_comm]
  | succ n ih =>
    intro i h M
    rw [List.range'_succ, List.map_cons, cholRows]
    by_cases hp : 0 < piv A i
    · have hrow := (cholRow_iff A (show i < d by omega) (rowL A d i)).2 ⟨hp, rfl⟩
      rw [hrow]
      simp only
      have hsnoc : (List.range i).map (rowL A d) ++ [rowL A d i] = (List.range (i + 1)).map (rowL A d) := by
        simp [List.range_succ]
      rw [hsnoc, ih (i + 1) (by omega) M]
      have e : i + 1 + n = i + (n + 1) := by omega
      rw [e]
      constructor
      · rintro ⟨h1, h2⟩
        refine ⟨fun t ht => ?_, h2⟩
        rcases t with _ | t
        · simpa using hp
        · have := h1 t (by omega)
          rwa [show i + 1 + t = i + (t + 1) by omega] at this
      · rintro ⟨h1, h2⟩
        refine ⟨fun t ht => ?_, h2⟩
        have := h1 (t + 1) (by omega)
        rwa [show i + (t + 1) = i + 1 + t by omega] at this
    · have hnone : cholRow d ((List.range i).map (rowL A d)) (rowA A d i) = none := by
        cases hc : cholRow d ((List.range i).map (rowL A d)) (rowA A d i) with
        | none => rfl
        | some r => exact absurd ((cholRow_iff A (show i < d by omega) r).1 hc).1 hp
      rw [hnone]
      simp only [false_iff, not_and, reduceCtorEq]
      intro h1
      exact absurd (by simpa using h1 0 (by omega)) hp


/-! ### the defining equations -/

theorem sum_trunc (f : ℕ → ℝ) {b n : ℕ} (hbn : b < n) (hz : ∀ k, b < k → f k = 0) :
    ∑ k ∈ range n, f k = ∑ k ∈ range (b + 1), f k := by
  symm
  apply Finset.sum_subset
  · intro k hk; simp only [Finset.mem_range] at *; omega
  · intro k _ hk2
    exact hz k (by simp only [Finset.mem_range] at hk2; omega)

theorem rowdot_off {a b n : ℕ} (hb : b < a) (hbn : b < n) (hpb : cholF A b b ≠ 0) :
    ∑ k ∈ range n, cholF A a k * cholF A b k = A a b := by
  rw [sum_trunc _ hbn (fun k hk => by rw [cholF_lower A hk, mul_zero]), Finset.sum_range_succ, cholF_off A hb]
  field_simp
  ring

theorem rowdot_diag {a n : ℕ} (han : a < n) (hp : 0 < piv A a) :
    ∑ k ∈ range n, cholF A a k * cholF A a k = A a a := by
  rw [sum_trunc _ han (fun k hk => by rw [cholF_lower A hk, mul_zero]), Finset.sum_range_succ, cholF_diag,
    Real.mul_self_sqrt hp.le, piv]
  ring

theorem cholF_diag_pos {i : ℕ} (hp : 0 < piv A i) : 0 < cholF A i i := by
  rw [cholF_diag]; exact Real.sqrt_pos.2 hp

/-! ### matrices -/
section Mat
open Lemmas.GaussJordan (matOf)
variable {d : ℕ}

/-- a matrix as a function of natural indices (0 outside the shape) -/
def natOf (S : Matrix (Fin d) (Fin d) ℝ) : ℕ → ℕ → ℝ :=
  fun i j => if h : i < d ∧ j < d then S ⟨i, h.1⟩ ⟨j, h.2⟩ else 0

@[simp] theorem natOf_fin (S : Matrix (Fin d) (Fin d) ℝ) (i j : Fin d) : natOf S i j = S i j := by
  simp [natOf]

/-- the matrix the algorithm returns when it returns one -/
noncomputable def cholMat (S : Matrix (Fin d) (Fin d) ℝ) : Matrix (Fin d) (Fin d) ℝ :=
  fun i j => cholF (natOf S) i j

theorem matOf_eq_rowA (S : Matrix (Fin d) (Fin d) ℝ) : matOf S = (List.range d).map (rowA (natOf S) d) := by
  apply List.ext_getElem
  · simp [matOf]
  · intro i h1 h2
    apply List.ext_getElem
    · simp [matOf, rowA]
    · intro j h3 h4
      have hi : i < d := by simpa [matOf] using h1
      have hj : j < d := by simpa [matOf] using h3
      simp [matOf, rowA, natOf, hi, hj]

theorem matOf_cholMat (S : Matrix (Fin d) (Fin d) ℝ) :
    matOf (cholMat S) = (List.range d).map (rowL (natOf S) d) := by
  apply List.ext_getElem
  · simp [matOf]
  · intro i h1 h2
    apply List.ext_getElem
    · simp [matOf, rowL]
    · intro j h3 h4
      simp [matOf, rowL, cholMat]

/-- **what `chol` does on the list form of a matrix**: it answers iff every pivot is positive, and then with `cholMat` -/
theorem chol_matOf_iff (S : Matrix (Fin d) (Fin d) ℝ) (M : List (List ℝ)) :
    chol (matOf S) = some M ↔ (∀ i, i < d → 0 < piv (natOf S) i) ∧ M = matOf (cholMat S) := by
  have hlen : (matOf S).length = d := by simp [matOf]
  have hall : (matOf S).all (fun r => r.length == (matOf S).length) = true := by
    rw [List.all_eq_true]
    intro r hr
    rw [hlen]
    unfold matOf at hr
    rw [List.mem_ofFn] at hr
    obtain ⟨a, rfl⟩ := hr
    simp
  unfold chol
  rw [hall, if_pos rfl, hlen, matOf_eq_rowA, ← matOf_eq_rowA S, matOf_cholMat]
  have h := cholRows_iff (natOf S) (d := d) d 0 (by omega) M
  simp only [zero_add, List.range_zero, List.map_nil, ← List.range_eq_range'] at h
  rw [matOf_eq_rowA]
  exact h


theorem cholMat_mul_transpose_apply (S : Matrix (Fin d) (Fin d) ℝ) (i j : Fin d) :
    (cholMat S * (cholMat S)ᵀ) i j = ∑ k ∈ range d, cholF (natOf S) i k * cholF (natOf S) j k := by
  rw [Matrix.mul_apply, ← Fin.sum_univ_eq_sum_range (fun k => cholF (natOf S) i k * cholF (natOf S) j k) d]
  rfl

/-- lower part of the Gram matrix of the computed rows -/
theorem gram_lower (S : Matrix (Fin d) (Fin d) ℝ) (hp : ∀ i, i < d → 0 < piv (natOf S) i) (i j : Fin d) (hji : j ≤ i) :
    ∑ k ∈ range d, cholF (natOf S) i k * cholF (natOf S) j k = S i j := by
  rcases lt_or_eq_of_le hji with h | h
  · rw [rowdot_off (natOf S) (show j.val < i.val from h) j.isLt (cholF_diag_pos _ (hp j j.isLt)).ne', natOf_fin]
  · subst h
    rw [rowdot_diag (natOf S) j.isLt (hp j j.isLt), natOf_fin]

/-- **correctness**: when every pivot is positive the computed matrix is a Cholesky factor in the sense of `potrf` -/
theorem cholMat_isFactor (S : Matrix (Fin d) (Fin d) ℝ) (hp : ∀ i, i < d → 0 < piv (natOf S) i) :
    Lemmas.CholeskyPD.IsCholeskyFactor S (cholMat S) where
  lower := fun i j h => cholF_lower _ (show i.val < j.val from h)
  diag_pos := fun i => cholF_diag_pos _ (hp i i.isLt)
  factor := by
    ext i j
    rw [cholMat_mul_transpose_apply]
    unfold Lemmas.CholeskyPD.symLower
    by_cases h : j ≤ i
    · rw [if_pos h, gram_lower S hp i j h]
    · rw [if_neg h, ← gram_lower S hp j i (le_of_lt (not_le.1 h))]
      exact Finset.sum_congr rfl fun k _ => mul_comm _ _

/-- **`chol` answers ⇒ the answer is a Cholesky factor** (lower-triangular, positive diagonal, `L Lᵀ = symLower S`) -/
theorem chol_matOf_sound (S : Matrix (Fin d) (Fin d) ℝ) (M : List (List ℝ)) (h : chol (matOf S) = some M) :
    ∃ L : Matrix (Fin d) (Fin d) ℝ, M = matOf L ∧ Lemmas.CholeskyPD.IsCholeskyFactor S L := by
  obtain ⟨hp, hM⟩ := (chol_matOf_iff S M).1 h
  exact ⟨cholMat S, hM, cholMat_isFactor S hp⟩


/-! ### completeness: every pivot of a positive definite matrix is positive -/

/-- rows `< i` of the factor, row `i` with a unit diagonal entry, unit rows below -/
noncomputable def partialG (A : ℕ → ℕ → ℝ) (i : ℕ) (a k : ℕ) : ℝ :=
  if k < i ∧ a ≤ i then cholF A a k else if a = k then 1 else 0

theorem core_gram (A : ℕ → ℕ → ℝ) (i : ℕ) (ih : ∀ m, m < i → 0 < piv A m) {a b : ℕ} (hba : b ≤ a) (hai : a ≤ i) :
    ∑ k ∈ range i, cholF A a k * cholF A b k
      + (if a = i then 1 else 0) * piv A i * (if b = i then 1 else 0) = A a b := by
  rcases lt_or_eq_of_le hai with ha | ha
  · have hb : b ≠ i := by omega
    rw [if_neg ha.ne, zero_mul, zero_mul, add_zero]
    rcases lt_or_eq_of_le hba with h | h
    · exact rowdot_off A h (by omega) (cholF_diag_pos A (ih b (by omega))).ne'
    · subst h; exact rowdot_diag A ha (ih b ha)
  · subst ha
    rcases lt_or_eq_of_le hba with h | h
    · rw [if_neg h.ne, mul_zero, add_zero]
      exact rowdot_off A h h (cholF_diag_pos A (ih b h)).ne'
    · subst h
      simp [piv]

theorem partialG_gram (A : ℕ → ℕ → ℝ) (i d : ℕ) (hi : i < d) (ih : ∀ m, m < i → 0 < piv A m) {a b : ℕ}
    (hba : b ≤ a) (hai : a ≤ i) :
    ∑ k ∈ range d, partialG A i a k * (if k = i then piv A i else 1) * partialG A i b k = A a b := by
  rw [sum_trunc _ hi (fun k hk => by
    have : ¬ (k < i ∧ a ≤ i) := by omega
    have h2 : a ≠ k := by omega
    simp [partialG, this, h2])]
  rw [Finset.sum_range_succ, ← core_gram A i ih hba hai]
  congr 1
  · apply Finset.sum_congr rfl
    intro k hk
    have hk' : k < i := Finset.mem_range.1 hk
    have hb : b ≤ i := by omega
    simp [partialG, hk', hai, hb, hk'.ne]
  · simp [partialG]


theorem natOf_symm (S : Matrix (Fin d) (Fin d) ℝ) (hs : S.IsSymm) (a b : ℕ) : natOf S a b = natOf S b a := by
  unfold natOf
  by_cases h : a < d ∧ b < d
  · rw [dif_pos h, dif_pos ⟨h.2, h.1⟩]
    exact hs.apply ⟨b, h.2⟩ ⟨a, h.1⟩
  · rw [dif_neg h, dif_neg (fun h' => h ⟨h'.2, h'.1⟩)]

/-- one pivot: if all earlier pivots are positive, pivot `i` is the quadratic form of `S` at a non-zero vector -/
theorem piv_pos_step (S : Matrix (Fin d) (Fin d) ℝ) (hS : S.PosDef) (i : ℕ) (hi : i < d)
    (ih : ∀ m, m < i → 0 < piv (natOf S) m) : 0 < piv (natOf S) i := by
  set A := natOf S with hA
  have hsymm : S.IsSymm := by
    have := hS.isHermitian
    rwa [Matrix.IsHermitian, Matrix.conjTranspose_eq_transpose_of_trivial] at this
  let G : Matrix (Fin d) (Fin d) ℝ := fun a k => partialG A i a k
  let Dv : Fin d → ℝ := fun k => if k.val = i then piv A i else 1
  let iF : Fin d := ⟨i, hi⟩
  -- G is invertible
  have hGdet : G.det ≠ 0 := by
    apply Lemmas.CholeskyPD.det_ne_zero_of_lower
    · intro a k hak
      have h1 : a.val < k.val := hak
      have h2 : a.val ≠ k.val := h1.ne
      show partialG A i a k = 0
      unfold partialG
      split
      · exact cholF_lower A h1
      · simp
    · intro a
      show 0 < partialG A i a a
      unfold partialG
      split
      · rename_i h; exact cholF_diag_pos A (ih a h.1)
      · simp
  have hGt : IsUnit Gᵀ.det := by rw [Matrix.det_transpose]; exact isUnit_iff_ne_zero.2 hGdet
  let v : Fin d → ℝ := Gᵀ⁻¹ *ᵥ Pi.single iF 1
  have hv : Gᵀ *ᵥ v = Pi.single iF 1 := by
    show Gᵀ *ᵥ (Gᵀ⁻¹ *ᵥ Pi.single iF 1) = _
    rw [Matrix.mulVec_mulVec, Matrix.mul_nonsing_inv _ hGt, Matrix.one_mulVec]
  -- support of v
  have hsupp : ∀ r : Fin d, i < r.val → v r = 0 := by
    intro r hr
    have h := congrFun hv r
    have hne : r ≠ iF := by intro h'; rw [h'] at hr; exact lt_irrefl _ hr
    rw [Pi.single_eq_of_ne hne] at h
    rw [← h]
    simp only [Matrix.mulVec, dotProduct, Matrix.transpose_apply]
    rw [Finset.sum_eq_single r]
    · have : ¬ (r.val < i ∧ r.val ≤ i) := by omega
      simp [G, partialG, this]
    · intro a _ har
      have h1 : ¬ (r.val < i ∧ a.val ≤ i) := by omega
      have h2 : a.val ≠ r.val := fun h' => har (Fin.ext h')
      simp [G, partialG, h1, h2]
    · intro h'; exact absurd (Finset.mem_univ r) h'
  -- S and G D Gᵀ agree on the leading block
  have hentry : ∀ a b : Fin d, a.val ≤ i → b.val ≤ i → (G * Matrix.diagonal Dv * Gᵀ) a b = S a b := by
    intro a b ha hb
    rw [Matrix.mul_apply]
    simp only [Matrix.mul_diagonal, Matrix.transpose_apply]
    have e := Fin.sum_univ_eq_sum_range
      (fun k => partialG A i a k * (if k = i then piv A i else 1) * partialG A i b k) d
    rw [show (∑ k : Fin d, G a k * Dv k * G b k) = ∑ k ∈ range d,
        partialG A i a k * (if k = i then piv A i else 1) * partialG A i b k from e]
    by_cases hab : b.val ≤ a.val
    · rw [partialG_gram A i d hi ih hab ha, hA, natOf_fin]
    · have hab' : a.val ≤ b.val := by omega
      rw [← natOf_fin S a b, natOf_symm S hsymm, ← hA, ← partialG_gram A i d hi ih hab' hb]
      exact Finset.sum_congr rfl fun k _ => by ring
  -- quadratic forms
  have hquad : v ⬝ᵥ (S *ᵥ v) = v ⬝ᵥ ((G * Matrix.diagonal Dv * Gᵀ) *ᵥ v) := by
    simp only [dotProduct, Matrix.mulVec]
    apply Finset.sum_congr rfl
    intro a _
    by_cases ha : a.val ≤ i
    · congr 1
      apply Finset.sum_congr rfl
      intro b _
      by_cases hb : b.val ≤ i
      · rw [hentry a b ha hb]
      · rw [hsupp b (by omega)]; simp
    · rw [hsupp a (by omega)]; simp
  have hval : v ⬝ᵥ ((G * Matrix.diagonal Dv * Gᵀ) *ᵥ v) = piv A i := by
    rw [← Matrix.mulVec_mulVec, ← Matrix.mulVec_mulVec, Matrix.dotProduct_mulVec, ← Matrix.mulVec_transpose, hv]
    simp [Dv, iF]
  have hv0 : v ≠ 0 := by
    intro h0
    rw [h0, Matrix.mulVec_zero] at hv
    have := congrFun hv iF
    simp at this
  have hpos := hS.dotProduct_mulVec_pos hv0
  rw [star_trivial, hquad, hval] at hpos
  exact hpos

/-- **completeness**: every pivot of a (symmetric) positive definite matrix is positive -/
theorem piv_pos_of_posDef (S : Matrix (Fin d) (Fin d) ℝ) (hS : S.PosDef) : ∀ i, i < d → 0 < piv (natOf S) i := by
  intro i
  induction i using Nat.strong_induction_on with
  | _ i ih =>
    intro hi
    exact piv_pos_step S hS i hi fun m hm => ih m hm (by omega)

/-- **`chol` factorises every positive definite matrix** -/
theorem chol_matOf_posDef (S : Matrix (Fin d) (Fin d) ℝ) (hS : S.PosDef) :
    chol (matOf S) = some (matOf (cholMat S)) :=
  (chol_matOf_iff S _).2 ⟨piv_pos_of_posDef S hS, rfl⟩

/-! ### uniqueness -/

theorem matOf_injective : Function.Injective (matOf (d := d)) := by
  intro L L' h
  ext i j
  have h1 := congrArg (fun M : List (List ℝ) => (M[i.val]?).bind (·[j.val]?)) h
  simpa [matOf] using h1

/-- **uniqueness**: any matrix meeting `potrf`'s contract for `S` is the one the model computes -/
theorem isFactor_unique (S L : Matrix (Fin d) (Fin d) ℝ) (h : Lemmas.CholeskyPD.IsCholeskyFactor S L) :
    L = cholMat S := by
  have hgram : ∀ i j : Fin d, j ≤ i → ∑ k ∈ range d, natOf L i k * natOf L j k = S i j := by
    intro i j hji
    have := congrFun (congrFun h.factor i) j
    rw [Matrix.mul_apply, Lemmas.CholeskyPD.symLower, if_pos hji] at this
    rw [← this, ← Fin.sum_univ_eq_sum_range (fun k => natOf L i k * natOf L j k) d]
    simp
  have hlow : ∀ (j : Fin d) (k : ℕ), j.val < k → natOf L j k = 0 := by
    intro j k hk
    unfold natOf
    split
    · rename_i hh; exact h.lower j ⟨k, hh.2⟩ hk
    · rfl
  have key : ∀ i, i < d → ∀ j, j < d → natOf L i j = cholF (natOf S) i j := by
    intro i
    induction i using Nat.strong_induction_on with
    | _ i ihi =>
      intro hi j
      induction j using Nat.strong_induction_on with
      | _ j ihj =>
        intro hj
        rcases lt_trichotomy j i with hji | hji | hji
        · have hg := hgram ⟨i, hi⟩ ⟨j, hj⟩ (le_of_lt hji)
          rw [sum_trunc _ hj (fun k hk => by rw [hlow ⟨j, hj⟩ k hk, mul_zero]), Finset.sum_range_succ] at hg
          have hjj : natOf L j j = cholF (natOf S) j j := ihi j hji hj j hj
          have hpos : 0 < natOf L j j := by rw [natOf_fin L ⟨j, hj⟩ ⟨j, hj⟩]; exact h.diag_pos _
          have hsum : ∑ k ∈ range j, natOf L i k * natOf L j k
              = ∑ k ∈ range j, cholF (natOf S) i k * cholF (natOf S) j k := by
            apply Finset.sum_congr rfl
            intro k hk
            have hk' := Finset.mem_range.1 hk
            rw [ihj k hk' (by omega), ihi j hji hj k (by omega)]
          rw [cholF_off _ hji, ← hsum, ← hjj, eq_div_iff hpos.ne']
          rw [← natOf_fin S] at hg
          simp only at hg ⊢
          linarith
        · subst hji
          have hg := hgram ⟨j, hj⟩ ⟨j, hj⟩ le_rfl
          rw [sum_trunc _ hj (fun k hk => by rw [hlow ⟨j, hj⟩ k hk, mul_zero]), Finset.sum_range_succ] at hg
          have hpos : 0 < natOf L j j := by rw [natOf_fin L ⟨j, hj⟩ ⟨j, hj⟩]; exact h.diag_pos _
          have hsum : ∑ k ∈ range j, natOf L j k * natOf L j k
              = ∑ k ∈ range j, cholF (natOf S) j k * cholF (natOf S) j k := by
            apply Finset.sum_congr rfl
            intro k hk
            have hk' := Finset.mem_range.1 hk
            rw [ihj k hk' (by omega)]
          have hp : piv (natOf S) j = natOf L j j * natOf L j j := by
            rw [piv, ← hsum]
            rw [← natOf_fin S] at hg
            simp only at hg ⊢
            linarith
          rw [cholF_diag, hp, Real.sqrt_mul_self hpos.le]
        · rw [hlow ⟨i, hi⟩ j hji, cholF_lower _ hji]
  ext i j
  rw [← natOf_fin L i j, key i i.isLt j j.isLt]
  rfl

end Mat
section Bridge
open Model.Kernel
open Lemmas.GaussJordan (matOf)
variable {d : ℕ}

/-! ### the list linear algebra of `Model/Kernel.lean` on `List.ofFn` data -/

theorem dotv_ofFn {n : ℕ} (a b : Fin n → ℝ) : dotv (List.ofFn a) (List.ofFn b) = a ⬝ᵥ b := by
  unfold dotv Sc.sum
  rw [foldl_add]
  have : List.zipWith Sc.mul (List.ofFn a) (List.ofFn b) = List.ofFn fun i => a i * b i := by
    apply List.ext_getElem
    · simp
    · intro k h1 h2; simp
  rw [this, List.sum_ofFn]
  simp [dotProduct]

theorem matVec_matOf {n m : ℕ} (M : Matrix (Fin n) (Fin m) ℝ) (v : Fin m → ℝ) :
    matVec (List.ofFn fun a => List.ofFn (M a)) (List.ofFn v) = List.ofFn (M *ᵥ v) := by
  unfold matVec
  rw [List.map_ofFn]
  congr 1
  funext a
  simp [dotv_ofFn, Matrix.mulVec]

theorem columns_ofFn {n : ℕ} : ∀ (m : ℕ) (R : Fin (m + 1) → Fin n → ℝ),
    columns (List.ofFn fun a => List.ofFn (R a)) = List.ofFn fun b => List.ofFn fun a => R a b := by
  intro m
  induction m with
  | zero =>
    intro R
    simp [columns, List.map_ofFn, Function.comp_def]
  | succ m ih =>
    intro R
    have h1 : (List.ofFn fun a => List.ofFn (R a))
        = List.ofFn (R 0) :: List.ofFn (R 1) :: List.ofFn fun a : Fin m => List.ofFn (R a.succ.succ) := by
      rw [List.ofFn_succ, List.ofFn_succ]; rfl
    rw [h1, columns]
    swap
    · simp
    have h2 : (List.ofFn (R 1) :: List.ofFn fun a : Fin m => List.ofFn (R a.succ.succ))
        = List.ofFn fun a : Fin (m + 1) => List.ofFn (R a.succ) := by
      rw [List.ofFn_succ]; rfl
    rw [h2, ih (fun a => R a.succ)]
    apply List.ext_getElem
    · simp
    · intro k hk1 hk2
      simp [List.ofFn_succ]


theorem vecMat_matOf (v : Fin d → ℝ) (M : Matrix (Fin d) (Fin d) ℝ) :
    vecMat (List.ofFn v) (matOf M) = List.ofFn (v ᵥ* M) := by
  unfold vecMat matOf
  cases d with
  | zero => simp [columns]
  | succ n =>
    rw [columns_ofFn n (fun a b => M a b), List.map_ofFn]
    congr 1
    funext b
    show dotv (List.ofFn v) (List.ofFn fun a => M a b) = _
    rw [dotv_ofFn]
    rfl

/-- the quadratic form `v @ M @ v` of the executable kernel model is the Mathlib one -/
theorem qform_matOf (v : Fin d → ℝ) (M : Matrix (Fin d) (Fin d) ℝ) :
    qform (List.ofFn v) (matOf M) = v ⬝ᵥ (M *ᵥ v) := by
  unfold qform
  rw [vecMat_matOf, dotv_ofFn, Matrix.dotProduct_mulVec]

theorem vsub_ofFn {n : ℕ} (a b : Fin n → ℝ) : vsub (List.ofFn a) (List.ofFn b) = List.ofFn (a - b) := by
  unfold vsub
  apply List.ext_getElem
  · simp
  · intro k h1 h2; simp

theorem vadd_ofFn {n : ℕ} (a b : Fin n → ℝ) : vadd (List.ofFn a) (List.ofFn b) = List.ofFn (a + b) := by
  unfold vadd
  apply List.ext_getElem
  · simp
  · intro k h1 h2; simp

theorem scaleMat_matOf (c : ℝ) (M : Matrix (Fin d) (Fin d) ℝ) : scaleMat c (matOf M) = matOf (c • M) := by
  unfold scaleMat matOf
  rw [List.map_ofFn]
  congr 1
  funext a
  simp [List.map_ofFn, Function.comp_def]

/-- `mu + sqrt(1 - sigma**2) * diff + sigma * sqrt(s) * chol @ z` on lists = the vector expression of the theorems -/
theorem tpcnProposal_ofFn (μ diff z : Fin d → ℝ) (L : Matrix (Fin d) (Fin d) ℝ) (σ s : ℝ) :
    tpcnProposal (List.ofFn μ) (List.ofFn diff) (matOf L) σ s (List.ofFn z)
      = List.ofFn (μ + diffCoef σ • diff + noiseScale σ s • (L *ᵥ z)) := by
  unfold tpcnProposal
  simp only [scaleMat_matOf]
  have hm : matVec (matOf (noiseScale σ s • L)) (List.ofFn z) = List.ofFn ((noiseScale σ s • L) *ᵥ z) :=
    matVec_matOf _ _
  rw [hm, List.map_ofFn]
  have : (Sc.mul (diffCoef σ) ∘ diff) = diffCoef σ • diff := by funext i; simp
  rw [this, vadd_ofFn, vadd_ofFn, Matrix.smul_mulVec]

/-- `u + sigma * chol @ z` on lists -/
theorem rwmProposal_ofFn (u z : Fin d → ℝ) (L : Matrix (Fin d) (Fin d) ℝ) (σ : ℝ) :
    rwmProposal (List.ofFn u) (matOf L) σ (List.ofFn z) = List.ofFn (u + σ • (L *ᵥ z)) := by
  unfold rwmProposal
  simp only [scaleMat_matOf]
  have hm : matVec (matOf (σ • L)) (List.ofFn z) = List.ofFn ((σ • L) *ᵥ z) := matVec_matOf _ _
  rw [hm, vadd_ofFn, Matrix.smul_mulVec]

/-- whenever the model's `inv` answers, the answer is the list form of the Mathlib inverse -/
theorem inv_matOf_eq (S : Matrix (Fin d) (Fin d) ℝ) (M : List (List ℝ)) (h : Model.Student.inv (matOf S) = some M) :
    M = matOf S⁻¹ := by
  rw [Lemmas.GaussJordan.inv_matOf_unfold] at h
  cases hg : Model.Student.gj d 0 (Lemmas.GaussJordan.aug S 1) with
  | none => simp [hg] at h
  | some M' =>
    obtain ⟨E', hM', hE⟩ := Lemmas.GaussJordan.gj_some S d 0 S 1 M' (by omega) ⟨by simp, by intro i j h; omega⟩ hg
    rw [hg, Option.map_some, Option.some.injEq] at h
    rw [← h, hM', Lemmas.GaussJordan.aug_drop, Matrix.inv_eq_left_inv hE]

end Bridge

end Lemmas.CholFactor
