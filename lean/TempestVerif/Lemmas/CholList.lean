import TempestVerif.Model.GMM
import TempestVerif.Lemmas.ScReal
import TempestVerif.Props.C15
import Mathlib.Tactic
/-
  The list-of-rows Cholesky factorisation of `Model/GMM.lean` (`cholAux`/`chol`), forward substitution and the
  Gaussian log-density built on them SUCCEED (return `some`) on symmetric positive definite inputs, at `ℝ`.
  Also: the regularised covariances the E-step feeds them (`addDiag reg C`, `scaledEye d reg`) are symmetric
  positive definite whenever `C` is symmetric PSD and `reg > 0`; `diagMat`/`covFull` are symmetric PSD.
-/
namespace Lemmas.CholList
open Model.GMM Model.EM
open Finset (range)

/-! ## entries, shapes, definiteness of list-of-rows matrices -/

/-- entry accessor (0 outside the shape; every theorem carries the shape as a hypothesis) -/
noncomputable def ent (A : List (List ℝ)) (i j : ℕ) : ℝ := ((A[i]?).bind (·[j]?)).getD 0

def IsSq (n : ℕ) (A : List (List ℝ)) : Prop := A.length = n ∧ ∀ r ∈ A, r.length = n

def SymL (A : List (List ℝ)) : Prop := ∀ i j, ent A i j = ent A j i

def PSDL (n : ℕ) (A : List (List ℝ)) : Prop :=
  ∀ v : ℕ → ℝ, 0 ≤ ∑ i ∈ range n, ∑ j ∈ range n, v i * ent A i j * v j

def PDL (n : ℕ) (A : List (List ℝ)) : Prop :=
  ∀ v : ℕ → ℝ, (∃ i, i < n ∧ v i ≠ 0) → 0 < ∑ i ∈ range n, ∑ j ∈ range n, v i * ent A i j * v j

theorem ent_of_get {A : List (List ℝ)} {i j : ℕ} {r : List ℝ} {x : ℝ} (hr : A[i]? = some r)
    (hx : r[j]? = some x) : ent A i j = x := by simp [ent, hr, hx]

theorem ent_cons_zero (r : List ℝ) (A : List (List ℝ)) (j : ℕ) : ent (r :: A) 0 j = (r[j]?).getD 0 := by
  simp [ent]

theorem ent_cons_succ (r : List ℝ) (A : List (List ℝ)) (i j : ℕ) : ent (r :: A) (i + 1) j = ent A i j := by
  simp [ent]

theorem ent_outside {n : ℕ} {A : List (List ℝ)} (h : IsSq n A) {i j : ℕ} (hij : ¬ (i < n ∧ j < n)) :
    ent A i j = 0 := by
  by_cases hi : i < n
  · have hj : ¬ j < n := fun hj => hij ⟨hi, hj⟩
    have hi' : i < A.length := by rw [h.1]; exact hi
    have hlen : (A[i]).length = n := h.2 _ (List.getElem_mem hi')
    have : (A[i])[j]? = none := by
      rw [List.getElem?_eq_none_iff]; omega
    simp [ent, List.getElem?_eq_getElem hi', this]
  · have : A[i]? = none := by rw [List.getElem?_eq_none_iff]; rw [h.1]; omega
    simp [ent, this]

theorem symL_of_inside {n : ℕ} {A : List (List ℝ)} (h : IsSq n A)
    (hs : ∀ i j, i < n → j < n → ent A i j = ent A j i) : SymL A := by
  intro i j
  by_cases hij : i < n ∧ j < n
  · exact hs i j hij.1 hij.2
  · rw [ent_outside h hij, ent_outside h (fun h' => hij ⟨h'.2, h'.1⟩)]

theorem PDL.psd {n : ℕ} {A : List (List ℝ)} (h : PDL n A) : PSDL n A := by
  intro v
  by_cases hv : ∃ i, i < n ∧ v i ≠ 0
  · exact (h v hv).le
  · push Not at hv
    apply Finset.sum_nonneg; intro i hi
    rw [hv i (Finset.mem_range.mp hi)]; simp

/-! ## `mapOpt` -/

theorem mapOpt_eq_map {β γ : Type} (f : β → Option γ) (g : β → γ) :
    ∀ l : List β, (∀ x ∈ l, f x = some (g x)) → mapOpt f l = some (l.map g) := by
  intro l
  induction l with
  | nil => intro _; rfl
  | cons x xs ih =>
    intro h
    have h1 := h x (by simp)
    have h2 := ih (fun y hy => h y (List.mem_cons_of_mem _ hy))
    simp [mapOpt, h1, h2]

theorem mapOpt_length {β γ : Type} (f : β → Option γ) :
    ∀ (l : List β) (ys : List γ), mapOpt f l = some ys → ys.length = l.length := by
  intro l
  induction l with
  | nil => intro ys h; simp [mapOpt] at h; simp [← h]
  | cons x xs ih =>
    intro ys h
    simp only [mapOpt] at h
    split at h
    · rename_i y ys' h1 h2
      simp only [Option.some.injEq] at h
      rw [← h]; simp [ih ys' h2]
    · simp at h

theorem mapOpt_get {β γ : Type} (f : β → Option γ) :
    ∀ (l : List β) (ys : List γ), mapOpt f l = some ys → ∀ (i : ℕ) (x : β), l[i]? = some x → f x = ys[i]? := by
  intro l
  induction l with
  | nil => intro ys _ i x hx; simp at hx
  | cons x xs ih =>
    intro ys h i z hz
    simp only [mapOpt] at h
    split at h
    · rename_i y ys' h1 h2
      simp only [Option.some.injEq] at h
      subst h
      cases i with
      | zero => simp at hz; subst hz; simpa using h1
      | succ i => simp at hz; simpa using ih ys' h2 i z hz
    · simp at h

theorem mapOpt_some_of_forall {β γ : Type} (f : β → Option γ) :
    ∀ l : List β, (∀ x ∈ l, ∃ y, f x = some y) → ∃ ys, mapOpt f l = some ys ∧ ys.length = l.length := by
  intro l
  induction l with
  | nil => intro _; exact ⟨[], rfl, rfl⟩
  | cons x xs ih =>
    intro h
    obtain ⟨y, hy⟩ := h x (by simp)
    obtain ⟨ys, hys, hl⟩ := ih (fun z hz => h z (List.mem_cons_of_mem _ hz))
    exact ⟨y :: ys, by simp [mapOpt, hy, hys], by simp [hl]⟩

/-! ## one elimination step of `cholAux` -/

/-- the column below the pivot, divided by `l = √pivot` -/
noncomputable def cvec (l : ℝ) (rows : List (List ℝ)) : List ℝ := rows.map fun r => r.headD 0 / l

/-- the Schur complement the recursion continues with -/
noncomputable def schur (l : ℝ) (rows : List (List ℝ)) : List (List ℝ) :=
  rows.map fun r => List.zipWith (fun t cj => t - (r.headD 0 / l) * cj) r.tail (cvec l rows)

theorem cholAux_nil (n : ℕ) : cholAux n ([] : Mat ℝ) = some [] := by
  cases n <;> rfl

theorem cholAux_step (n : ℕ) (a : ℝ) (t0 : List ℝ) (rows : List (List ℝ)) (ha : 0 < a)
    (hrows : ∀ r ∈ rows, r ≠ []) :
    cholAux (n + 1) ((a :: t0) :: rows) =
      (cholAux n (schur (Real.sqrt a) rows)).map fun L =>
        (⟨[], Real.sqrt a⟩ : LRow ℝ) ::
          List.zipWith (fun ci r => ⟨ci :: r.offs, r.diag⟩) (cvec (Real.sqrt a) rows) L := by
  have hm : ∀ f : List ℝ → Option (ℝ × List ℝ),
      (∀ x t, f (x :: t) = some (x / Real.sqrt a, t)) →
      mapOpt f rows = some (rows.map fun r => (r.headD 0 / Real.sqrt a, r.tail)) := by
    intro f hf
    apply mapOpt_eq_map
    intro r hr
    cases r with
    | nil => exact absurd rfl (hrows _ hr)
    | cons x t => simp [hf]
  rw [cholAux]
  simp only [ScReal.lt_def, ScReal.zero_def, ha, if_true]
  rw [hm _ (fun x t => rfl)]
  simp only [List.map_map, schur, cvec, ScReal.sub_def, ScReal.mul_def, ScReal.sqrt_def]
  simp only [Function.comp_def]
  generalize cholAux (α := ℝ) n _ = o
  cases o <;> rfl

theorem schur_isSq {n : ℕ} {rows : List (List ℝ)} (l : ℝ) (hlen : rows.length = n)
    (hr : ∀ r ∈ rows, r.length = n + 1) : IsSq n (schur l rows) := by
  refine ⟨by simp [schur, hlen], ?_⟩
  intro r hr'
  simp only [schur, List.mem_map] at hr'
  obtain ⟨r0, h0, rfl⟩ := hr'
  simp [cvec, hlen, hr r0 h0]

theorem row_cons_of_length {n : ℕ} {r : List ℝ} (h : r.length = n + 1) : ∃ x t, r = x :: t ∧ t.length = n := by
  cases r with
  | nil => simp at h
  | cons x t => exact ⟨x, t, rfl, by simpa using h⟩

theorem ent_schur {n : ℕ} {rows : List (List ℝ)} (l : ℝ) (hlen : rows.length = n)
    (hr : ∀ r ∈ rows, r.length = n + 1) {i j : ℕ} (hi : i < n) (hj : j < n) :
    ent (schur l rows) i j = ent rows i (j + 1) - (ent rows i 0 / l) * (ent rows j 0 / l) := by
  have hi' : i < rows.length := by omega
  have hj' : j < rows.length := by omega
  obtain ⟨x, t, hri, ht⟩ := row_cons_of_length (hr _ (List.getElem_mem hi'))
  obtain ⟨y, t', hrj, _⟩ := row_cons_of_length (hr _ (List.getElem_mem hj'))
  have htj : j < t.length := by omega
  have e1 : ent rows i 0 = x := ent_of_get (List.getElem?_eq_getElem hi') (by rw [hri]; rfl)
  have e2 : ent rows j 0 = y := ent_of_get (List.getElem?_eq_getElem hj') (by rw [hrj]; rfl)
  have e3 : ent rows i (j + 1) = t[j] :=
    ent_of_get (List.getElem?_eq_getElem hi') (by rw [hri]; simp [List.getElem?_eq_getElem htj])
  have e4 : ent (schur l rows) i j = t[j] - x / l * (y / l) := by
    apply ent_of_get (r := List.zipWith (fun t' cj => t' - x / l * cj) t (cvec l rows))
    · simp [schur, List.getElem?_eq_getElem hi', hri]
    · simp [List.getElem?_zipWith, cvec, List.getElem?_eq_getElem htj, List.getElem?_eq_getElem hj', hrj]
  rw [e1, e2, e3, e4]

/-- extend a vector by a new entry in front -/
noncomputable def ext (c : ℝ) (u : ℕ → ℝ) : ℕ → ℝ
  | 0 => c
  | k + 1 => u k

@[simp] theorem ext_zero (c : ℝ) (u : ℕ → ℝ) : ext c u 0 = c := rfl
@[simp] theorem ext_succ (c : ℝ) (u : ℕ → ℝ) (k : ℕ) : ext c u (k + 1) = u k := rfl

/-- the quadratic form of a symmetric matrix at the vector that eliminates the first coordinate
    is the quadratic form of the Schur complement -/
theorem schur_quad (n : ℕ) (M : ℕ → ℕ → ℝ) (a : ℝ) (ha : a ≠ 0) (h00 : M 0 0 = a)
    (hsym : ∀ j, M 0 (j + 1) = M (j + 1) 0) (u : ℕ → ℝ) :
    ∑ i ∈ range (n + 1), ∑ j ∈ range (n + 1),
        ext (-(∑ i ∈ range n, M (i + 1) 0 * u i) / a) u i * M i j * ext (-(∑ i ∈ range n, M (i + 1) 0 * u i) / a) u j
      = ∑ i ∈ range n, ∑ j ∈ range n, u i * (M (i + 1) (j + 1) - M (i + 1) 0 * M (j + 1) 0 / a) * u j := by
  set s := ∑ i ∈ range n, M (i + 1) 0 * u i with hs
  set c := -s / a with hc
  have h1 : ∑ i ∈ range n, u i * M (i + 1) 0 * c = s * c := by
    rw [hs, Finset.sum_mul]; apply Finset.sum_congr rfl; intro i _; ring
  have h2 : ∑ j ∈ range n, c * M 0 (j + 1) * u j = c * s := by
    rw [hs, Finset.mul_sum]; apply Finset.sum_congr rfl; intro j _; rw [hsym]; ring
  have h3 : ∑ i ∈ range n, ∑ j ∈ range n, u i * (M (i + 1) 0 * M (j + 1) 0 / a) * u j = s * s / a := by
    rw [hs, Finset.sum_mul_sum, Finset.sum_div]; apply Finset.sum_congr rfl; intro i _
    rw [Finset.sum_div]; apply Finset.sum_congr rfl; intro j _; ring
  have hR : ∑ i ∈ range n, ∑ j ∈ range n, u i * (M (i + 1) (j + 1) - M (i + 1) 0 * M (j + 1) 0 / a) * u j
      = (∑ i ∈ range n, ∑ j ∈ range n, u i * M (i + 1) (j + 1) * u j) - s * s / a := by
    rw [← h3, ← Finset.sum_sub_distrib]; apply Finset.sum_congr rfl; intro i _
    rw [← Finset.sum_sub_distrib]; apply Finset.sum_congr rfl; intro j _; ring
  rw [hR, Finset.sum_range_succ']
  simp only [Finset.sum_range_succ' _ n, ext_zero, ext_succ, Finset.sum_add_distrib, h1, h2, h00]
  rw [hc]; field_simp; ring

theorem pd_diag_pos {n : ℕ} {A : List (List ℝ)} (h : PDL n A) {k : ℕ} (hk : k < n) : 0 < ent A k k := by
  have := h (fun i => if i = k then 1 else 0) ⟨k, hk, by simp⟩
  simpa [Finset.sum_ite_eq', hk] using this

theorem schur_sym {n : ℕ} {a : ℝ} {t0 : List ℝ} {rows : List (List ℝ)}
    (hsq : IsSq (n + 1) ((a :: t0) :: rows)) (hsym : SymL ((a :: t0) :: rows)) (l : ℝ) :
    SymL (schur l rows) := by
  have hlen : rows.length = n := by simpa using hsq.1
  have hr : ∀ r ∈ rows, r.length = n + 1 := fun r h => hsq.2 r (List.mem_cons_of_mem _ h)
  apply symL_of_inside (schur_isSq l hlen hr)
  intro i j hi hj
  rw [ent_schur l hlen hr hi hj, ent_schur l hlen hr hj hi]
  have := hsym (i + 1) (j + 1)
  simp only [ent_cons_succ] at this
  rw [this]; ring

theorem schur_pd {n : ℕ} {a : ℝ} {t0 : List ℝ} {rows : List (List ℝ)}
    (hsq : IsSq (n + 1) ((a :: t0) :: rows)) (hsym : SymL ((a :: t0) :: rows))
    (hpd : PDL (n + 1) ((a :: t0) :: rows)) (ha : 0 < a) : PDL n (schur (Real.sqrt a) rows) := by
  have hlen : rows.length = n := by simpa using hsq.1
  have hr : ∀ r ∈ rows, r.length = n + 1 := fun r h => hsq.2 r (List.mem_cons_of_mem _ h)
  intro u hu
  obtain ⟨k, hk, huk⟩ := hu
  set A := (a :: t0) :: rows with hA
  have h00 : ent A 0 0 = a := by simp [hA, ent]
  have hq := schur_quad n (ent A) a ha.ne' h00 (fun j => hsym 0 (j + 1)) u
  have hpos := hpd (ext (-(∑ i ∈ range n, ent A (i + 1) 0 * u i) / a) u) ⟨k + 1, by omega, by simpa using huk⟩
  rw [hq] at hpos
  have e : ∑ i ∈ range n, ∑ j ∈ range n, u i * ent (schur (Real.sqrt a) rows) i j * u j
      = ∑ i ∈ range n, ∑ j ∈ range n, u i * (ent A (i + 1) (j + 1) - ent A (i + 1) 0 * ent A (j + 1) 0 / a) * u j := by
    apply Finset.sum_congr rfl; intro i hi
    apply Finset.sum_congr rfl; intro j hj
    rw [ent_schur _ hlen hr (Finset.mem_range.mp hi) (Finset.mem_range.mp hj)]
    simp only [hA, ent_cons_succ]
    rw [div_mul_div_comm, Real.mul_self_sqrt ha.le]
  rw [e]; exact hpos

/-! ## 1. the factorisation succeeds on symmetric positive definite matrices -/

/-- **`cholAux` succeeds on a symmetric positive definite matrix**, and returns a lower-triangular shape
    (row `i` has `i` off-diagonal entries) with a positive diagonal -/
theorem cholAux_some_of_pd : ∀ (n : ℕ) (A : List (List ℝ)), IsSq n A → SymL A → PDL n A →
    ∃ L, cholAux n A = some L ∧ L.length = n ∧
      ∀ (i : ℕ) (r : LRow ℝ), L[i]? = some r → r.offs.length = i ∧ 0 < r.diag := by
  intro n
  induction n with
  | zero =>
    intro A hsq _ _
    have : A = [] := List.eq_nil_of_length_eq_zero hsq.1
    subst this
    exact ⟨[], cholAux_nil 0, rfl, by simp⟩
  | succ n ih =>
    intro A hsq hsym hpd
    obtain ⟨row, rows, rfl⟩ : ∃ row rows, A = row :: rows := by
      cases A with
      | nil => have := hsq.1; simp at this
      | cons row rows => exact ⟨row, rows, rfl⟩
    obtain ⟨a, t0, rfl, _⟩ := row_cons_of_length (hsq.2 row (by simp))
    have hlen : rows.length = n := by simpa using hsq.1
    have hr : ∀ r ∈ rows, r.length = n + 1 := fun r h => hsq.2 r (List.mem_cons_of_mem _ h)
    have ha : 0 < a := by
      have := pd_diag_pos hpd (k := 0) (by omega)
      simpa [ent] using this
    have hne : ∀ r ∈ rows, r ≠ [] := by
      intro r h hnil; have := hr r h; rw [hnil] at this; simp at this
    obtain ⟨L', hL', hlen', hrows'⟩ := ih (schur (Real.sqrt a) rows) (schur_isSq _ hlen hr)
      (schur_sym hsq hsym _) (schur_pd hsq hsym hpd ha)
    rw [cholAux_step n a t0 rows ha hne, hL']
    refine ⟨_, rfl, by simp [cvec, hlen, hlen'], ?_⟩
    intro i r hir
    cases i with
    | zero =>
      simp only [List.getElem?_cons_zero, Option.some.injEq] at hir
      subst hir
      exact ⟨rfl, Real.sqrt_pos.mpr ha⟩
    | succ i =>
      simp only [List.getElem?_cons_succ] at hir
      rw [List.getElem?_zipWith_eq_some] at hir
      obtain ⟨ci, r', _, hr', rfl⟩ := hir
      obtain ⟨h1, h2⟩ := hrows' i r' hr'
      exact ⟨by simp [h1], h2⟩

theorem chol_some_of_pd (n : ℕ) (A : List (List ℝ)) (hsq : IsSq n A) (hsym : SymL A) (hpd : PDL n A) :
    ∃ L, chol A = some L ∧ L.length = n ∧
      ∀ (i : ℕ) (r : LRow ℝ), L[i]? = some r → r.offs.length = i ∧ 0 < r.diag := by
  unfold chol; rw [hsq.1]; exact cholAux_some_of_pd n A hsq hsym hpd

/-! ## 2. forward substitution -/

theorem fwdAux_some : ∀ (L : List (LRow ℝ)) (b ys : List ℝ), L.length = b.length →
    ∃ y, fwdAux L b ys = some y ∧ y.length = ys.length + b.length := by
  intro L
  induction L with
  | nil =>
    intro b ys h
    have : b = [] := List.eq_nil_of_length_eq_zero h.symm
    subst this
    exact ⟨ys, rfl, by simp⟩
  | cons r rs ih =>
    intro b ys h
    cases b with
    | nil => simp at h
    | cons b0 bs =>
      obtain ⟨y, hy, hl⟩ := ih bs (ys ++ [Sc.div (Sc.sub b0 (dot r.offs ys)) r.diag]) (by simpa using h)
      refine ⟨y, by rw [fwdAux]; exact hy, ?_⟩
      rw [hl]; simp; omega

/-! ## 3. the log-density succeeds -/

theorem factor?_some (d : ℕ) (M : List (List ℝ)) (hsq : IsSq d M) (hsym : SymL M) (hpd : PDL d M) :
    ∃ F, factor? M = some F ∧ F.rows.length = d ∧
      ∀ (i : ℕ) (r : LRow ℝ), F.rows[i]? = some r → r.offs.length = i ∧ 0 < r.diag := by
  obtain ⟨L, hL, hlen, hrows⟩ := chol_some_of_pd d M hsq hsym hpd
  exact ⟨_, by rw [factor?, hL]; rfl, hlen, hrows⟩

theorem maha?_some (F : Factor ℝ) (m x : List ℝ) (hx : x.length = F.rows.length) (hm : m.length = F.rows.length) :
    ∃ q, maha? F m x = some q := by
  obtain ⟨y, hy, _⟩ := fwdAux_some F.rows (List.zipWith Sc.sub x m) [] (by simp [hx, hm])
  exact ⟨_, by rw [maha?, hy]; rfl⟩

theorem logpdf?_some (d : ℕ) (F : Factor ℝ) (m x : List ℝ) (hx : x.length = F.rows.length)
    (hm : m.length = F.rows.length) : ∃ q, logpdf? d F m x = some q := by
  obtain ⟨q, hq⟩ := maha?_some F m x hx hm
  exact ⟨_, by rw [logpdf?, hq]; rfl⟩

/-- **`logpdfCol` succeeds** when the oracle accepts the matrix and it is symmetric positive definite
    of the right shape -/
theorem logpdfCol_some (sing : Mat ℝ → Bool) (d : ℕ) (M : List (List ℝ)) (m : List ℝ) (X : List (List ℝ))
    (hs : sing M = false) (hsq : IsSq d M) (hsym : SymL M) (hpd : PDL d M)
    (hX : ∀ x ∈ X, x.length = d) (hm : m.length = d) :
    ∃ l, logpdfCol sing d M m X = some l ∧ l.length = X.length := by
  obtain ⟨F, hF, hlen, _⟩ := factor?_some d M hsq hsym hpd
  obtain ⟨l, hl, hll⟩ := mapOpt_some_of_forall (logpdf? d F m) X
    (fun x hx => logpdf?_some d F m x (by rw [hlen]; exact hX x hx) (by rw [hlen]; exact hm))
  exact ⟨l, by simp [logpdfCol, hs, hF, hl], hll⟩

/-! ## 4. the matrices the E-step builds -/

theorem quad_add_diag (d : ℕ) (v : ℕ → ℝ) (F : ℕ → ℕ → ℝ) (c : ℕ → ℝ) :
    ∑ i ∈ range d, ∑ j ∈ range d, v i * (F i j + if i = j then c i else 0) * v j
      = (∑ i ∈ range d, ∑ j ∈ range d, v i * F i j * v j) + ∑ i ∈ range d, c i * v i ^ 2 := by
  simp only [mul_add, add_mul, Finset.sum_add_distrib]
  congr 1
  apply Finset.sum_congr rfl
  intro i hi
  simp only [mul_ite, ite_mul, mul_zero, zero_mul, Finset.sum_ite_eq, hi, if_true]
  ring

theorem sum_sq_pos {d : ℕ} {v : ℕ → ℝ} (hv : ∃ i, i < d ∧ v i ≠ 0) : 0 < ∑ i ∈ range d, v i ^ 2 := by
  obtain ⟨i, hi, hvi⟩ := hv
  exact Finset.sum_pos' (fun _ _ => sq_nonneg _) ⟨i, Finset.mem_range.mpr hi, by positivity⟩

theorem addDiag_get (reg : ℝ) (C : List (List ℝ)) (i j : ℕ) :
    ((addDiag reg C)[i]?.bind (·[j]?)) = ((C[i]?).bind (·[j]?)).map (fun x => if j = i then x + reg else x) := by
  simp only [addDiag, List.getElem?_map, List.getElem?_zipIdx]
  cases C[i]? with
  | none => simp
  | some r =>
    simp only [Option.map_some, Option.bind_some, List.getElem?_map, List.getElem?_zipIdx]
    cases r[j]? <;> simp

theorem addDiag_isSq {d : ℕ} {C : List (List ℝ)} (reg : ℝ) (h : IsSq d C) : IsSq d (addDiag reg C) := by
  refine ⟨by simp [addDiag, h.1], ?_⟩
  intro r hr
  obtain ⟨i, hi, rfl⟩ := List.mem_iff_getElem.mp hr
  have hi' : i < C.length := by simpa [addDiag] using hi
  simpa [addDiag] using h.2 _ (List.getElem_mem hi')

theorem ent_some {n : ℕ} {A : List (List ℝ)} (h : IsSq n A) {i j : ℕ} (hi : i < n) (hj : j < n) :
    ((A[i]?).bind (·[j]?)) = some (ent A i j) := by
  have hi' : i < A.length := by rw [h.1]; exact hi
  have hlen : (A[i]).length = n := h.2 _ (List.getElem_mem hi')
  have hj' : j < (A[i]).length := by omega
  simp [ent, List.getElem?_eq_getElem hi', List.getElem?_eq_getElem hj']

theorem ent_addDiag {d : ℕ} {C : List (List ℝ)} (reg : ℝ) (h : IsSq d C) {i j : ℕ} (hi : i < d) (hj : j < d) :
    ent (addDiag reg C) i j = ent C i j + if i = j then reg else 0 := by
  unfold ent
  rw [addDiag_get, ent_some h hi hj]
  by_cases hij : i = j
  · subst hij; simp
  · have : ¬ j = i := fun h => hij h.symm
    simp [hij, this]

/-- **`C + reg·I` is symmetric positive definite** for symmetric PSD `C` and `reg > 0` -/
theorem addDiag_pd (d : ℕ) (C : List (List ℝ)) (reg : ℝ) (hsq : IsSq d C) (hsym : SymL C) (hpsd : PSDL d C)
    (hreg : 0 < reg) :
    IsSq d (addDiag reg C) ∧ SymL (addDiag reg C) ∧ PDL d (addDiag reg C) := by
  have hsq' := addDiag_isSq reg hsq
  refine ⟨hsq', ?_, ?_⟩
  · apply symL_of_inside hsq'
    intro i j hi hj
    rw [ent_addDiag reg hsq hi hj, ent_addDiag reg hsq hj hi, hsym i j]
    by_cases hij : i = j
    · subst hij; rfl
    · have : ¬ j = i := fun h => hij h.symm
      simp [hij, this]
  · intro v hv
    have e : ∑ i ∈ range d, ∑ j ∈ range d, v i * ent (addDiag reg C) i j * v j
        = ∑ i ∈ range d, ∑ j ∈ range d, v i * (ent C i j + if i = j then reg else 0) * v j := by
      apply Finset.sum_congr rfl; intro i hi
      apply Finset.sum_congr rfl; intro j hj
      rw [ent_addDiag reg hsq (Finset.mem_range.mp hi) (Finset.mem_range.mp hj)]
    rw [e, quad_add_diag d v (ent C) (fun _ => reg), ← Finset.mul_sum]
    have h1 := hpsd v
    have h2 := mul_pos hreg (sum_sq_pos hv)
    linarith

theorem scaledEye_isSq (d : ℕ) (reg : ℝ) : IsSq d (scaledEye d reg) := by
  refine ⟨by simp [scaledEye], ?_⟩
  intro r hr
  simp only [scaledEye, List.mem_map] at hr
  obtain ⟨i, _, rfl⟩ := hr
  simp

theorem ent_scaledEye (d : ℕ) (reg : ℝ) {i j : ℕ} (hi : i < d) (hj : j < d) :
    ent (scaledEye d reg) i j = if i = j then reg else 0 := by
  simp [ent, scaledEye, List.getElem?_range hi, List.getElem?_range hj]

/-- **`reg·I` is symmetric positive definite** for `reg > 0` -/
theorem scaledEye_pd (d : ℕ) (reg : ℝ) (hreg : 0 < reg) :
    IsSq d (scaledEye d reg) ∧ SymL (scaledEye d reg) ∧ PDL d (scaledEye d reg) := by
  have hsq := scaledEye_isSq d reg
  refine ⟨hsq, ?_, ?_⟩
  · apply symL_of_inside hsq
    intro i j hi hj
    rw [ent_scaledEye d reg hi hj, ent_scaledEye d reg hj hi]
    by_cases hij : i = j
    · subst hij; rfl
    · have : ¬ j = i := fun h => hij h.symm
      simp [hij, this]
  · intro v hv
    have e : ∑ i ∈ range d, ∑ j ∈ range d, v i * ent (scaledEye d reg) i j * v j
        = ∑ i ∈ range d, ∑ j ∈ range d, v i * ((fun _ _ => (0 : ℝ)) i j + if i = j then reg else 0) * v j := by
      apply Finset.sum_congr rfl; intro i hi
      apply Finset.sum_congr rfl; intro j hj
      rw [ent_scaledEye d reg (Finset.mem_range.mp hi) (Finset.mem_range.mp hj)]; simp
    rw [e, quad_add_diag d v _ (fun _ => reg), ← Finset.mul_sum]
    have h2 := mul_pos hreg (sum_sq_pos hv)
    simpa using h2

theorem diagMat_isSq (v : List ℝ) : IsSq v.length (diagMat v) := by
  refine ⟨by simp [diagMat], ?_⟩
  intro r hr
  simp only [diagMat, List.mem_map] at hr
  obtain ⟨p, _, rfl⟩ := hr
  simp

theorem ent_diagMat (v : List ℝ) {i j : ℕ} (hi : i < v.length) (hj : j < v.length) :
    ent (diagMat v) i j = if i = j then v[i] else 0 := by
  have : (if j = i then v[i] else (0 : ℝ)) = if i = j then v[i] else 0 := by
    by_cases hij : i = j
    · subst hij; rfl
    · have : ¬ j = i := fun h => hij h.symm
      simp [hij, this]
  simp [ent, diagMat, List.getElem?_zipIdx, List.getElem?_eq_getElem hi, List.getElem?_range hj, this]

/-- **`np.diag(v)` is symmetric positive semidefinite** for a non-negative `v` -/
theorem diagMat_psd (v : List ℝ) (hv : ∀ x ∈ v, 0 ≤ x) :
    IsSq v.length (diagMat v) ∧ SymL (diagMat v) ∧ PSDL v.length (diagMat v) := by
  have hsq := diagMat_isSq v
  refine ⟨hsq, ?_, ?_⟩
  · apply symL_of_inside hsq
    intro i j hi hj
    rw [ent_diagMat v hi hj, ent_diagMat v hj hi]
    by_cases hij : i = j
    · subst hij; rfl
    · have : ¬ j = i := fun h => hij h.symm
      simp [hij, this]
  · intro u
    have e : ∑ i ∈ range v.length, ∑ j ∈ range v.length, u i * ent (diagMat v) i j * u j
        = ∑ i ∈ range v.length, ∑ j ∈ range v.length,
            u i * ((fun _ _ => (0 : ℝ)) i j + if i = j then v.getD i 0 else 0) * u j := by
      apply Finset.sum_congr rfl; intro i hi
      apply Finset.sum_congr rfl; intro j hj
      have hi' := Finset.mem_range.mp hi
      rw [ent_diagMat v hi' (Finset.mem_range.mp hj)]
      simp [List.getD_eq_getElem?_getD, List.getElem?_eq_getElem hi']
    rw [e, quad_add_diag v.length u _ (fun i => v.getD i 0)]
    simp only [mul_zero, zero_mul, Finset.sum_const_zero, zero_add]
    apply Finset.sum_nonneg
    intro i hi
    have hi' := Finset.mem_range.mp hi
    have : 0 ≤ v.getD i 0 := by
      simp only [List.getD_eq_getElem?_getD, List.getElem?_eq_getElem hi', Option.getD_some]
      exact hv _ (List.getElem_mem hi')
    positivity

theorem covFull_isSq (eps : ℝ) (d : ℕ) (ω : List ℝ) (D : List (List ℝ)) : IsSq d (covFull eps d ω D) := by
  refine ⟨by simp [covFull], ?_⟩
  intro r hr
  simp only [covFull, List.mem_map] at hr
  obtain ⟨i, _, rfl⟩ := hr
  simp

theorem ent_covFull (eps : ℝ) (d : ℕ) (ω : List ℝ) (D : List (List ℝ)) {a b : ℕ} (ha : a < d) (hb : b < d) :
    ent (covFull eps d ω D) a b = covEntry eps ω D a b := by
  unfold ent; rw [Props.C15.covFull_entry eps d ω D a b ha hb]; rfl

/-- **the 'full' M-step covariance is symmetric positive semidefinite** as a list-of-rows matrix -/
theorem covFull_psd (eps : ℝ) (d : ℕ) (ω : List ℝ) (D : List (List ℝ)) (heps : 0 < eps)
    (hω : ∀ w ∈ ω, 0 ≤ w) (hD : ∀ r ∈ D, r.length = d) :
    IsSq d (covFull eps d ω D) ∧ SymL (covFull eps d ω D) ∧ PSDL d (covFull eps d ω D) := by
  have hsq := covFull_isSq eps d ω D
  obtain ⟨h1, h2, _⟩ := Props.C15.C15_cov_sym_psd eps d ω D heps hω hD
  refine ⟨hsq, ?_, ?_⟩
  · apply symL_of_inside hsq
    intro i j hi hj
    rw [ent_covFull eps d ω D hi hj, ent_covFull eps d ω D hj hi, h1]
  · intro v
    have e : ∑ i ∈ range d, ∑ j ∈ range d, v i * ent (covFull eps d ω D) i j * v j
        = ∑ i ∈ range d, ∑ j ∈ range d, v i * covEntry eps ω D i j * v j := by
      apply Finset.sum_congr rfl; intro i hi
      apply Finset.sum_congr rfl; intro j hj
      rw [ent_covFull eps d ω D (Finset.mem_range.mp hi) (Finset.mem_range.mp hj)]
    rw [e]; exact h2 v

/-- the E-step's first attempt succeeds on a regularised symmetric PSD covariance the oracle accepts -/
theorem logpdfCol_addDiag_some (sing : Mat ℝ → Bool) (d : ℕ) (C : List (List ℝ)) (reg : ℝ) (m : List ℝ)
    (X : List (List ℝ)) (hs : sing (addDiag reg C) = false) (hsq : IsSq d C) (hsym : SymL C) (hpsd : PSDL d C)
    (hreg : 0 < reg) (hX : ∀ x ∈ X, x.length = d) (hm : m.length = d) :
    ∃ l, logpdfCol sing d (addDiag reg C) m X = some l ∧ l.length = X.length := by
  obtain ⟨h1, h2, h3⟩ := addDiag_pd d C reg hsq hsym hpsd hreg
  exact logpdfCol_some sing d _ m X hs h1 h2 h3 hX hm

/-- the E-step's `except` branch succeeds whenever the oracle accepts `reg·I` -/
theorem logpdfCol_scaledEye_some (sing : Mat ℝ → Bool) (d : ℕ) (reg : ℝ) (m : List ℝ)
    (X : List (List ℝ)) (hs : sing (scaledEye d reg) = false)
    (hreg : 0 < reg) (hX : ∀ x ∈ X, x.length = d) (hm : m.length = d) :
    ∃ l, logpdfCol sing d (scaledEye d reg) m X = some l ∧ l.length = X.length := by
  obtain ⟨h1, h2, h3⟩ := scaledEye_pd d reg hreg
  exact logpdfCol_some sing d _ m X hs h1 h2 h3 hX hm

/-! ## 5. non-vacuity -/

noncomputable def exA : List (List ℝ) := [[4, 2], [2, 3]]

theorem exA_sq : IsSq 2 exA := by simp [IsSq, exA]

theorem exA_sym : SymL exA := by
  apply symL_of_inside exA_sq
  intro i j hi hj
  interval_cases i <;> interval_cases j <;> simp [ent, exA]

theorem exA_pd : PDL 2 exA := by
  intro v hv
  have e : ∑ i ∈ range 2, ∑ j ∈ range 2, v i * ent exA i j * v j
      = 2 * v 0 ^ 2 + 2 * (v 0 + v 1) ^ 2 + v 1 ^ 2 := by
    simp [Finset.sum_range_succ, ent, exA]; ring
  rw [e]
  obtain ⟨i, hi, hvi⟩ := hv
  interval_cases i <;> positivity

example : ∃ L, chol exA = some L ∧ L.length = 2 ∧
    ∀ (i : ℕ) (r : LRow ℝ), L[i]? = some r → r.offs.length = i ∧ 0 < r.diag :=
  chol_some_of_pd 2 exA exA_sq exA_sym exA_pd

/-- the factor itself: `[[2, 0], [1, √2]]` -/
example : chol exA = some [⟨[], 2⟩, ⟨[1], Real.sqrt 2⟩] := by
  have h4 : Real.sqrt 4 = 2 := by
    rw [show (4 : ℝ) = 2 ^ 2 by norm_num]; exact Real.sqrt_sq (by norm_num)
  simp [chol, exA, cholAux, mapOpt, h4]
  norm_num

/-- a singular symmetric PSD matrix: no factor without the regularisation … -/
noncomputable def exB : List (List ℝ) := [[1, 1], [1, 1]]

example : chol exB = none := by
  simp [chol, exB, cholAux, mapOpt]

theorem exB_sq : IsSq 2 exB := by simp [IsSq, exB]

theorem exB_sym : SymL exB := by
  apply symL_of_inside exB_sq
  intro i j hi hj
  interval_cases i <;> interval_cases j <;> simp [ent, exB]

theorem exB_psd : PSDL 2 exB := by
  intro v
  have e : ∑ i ∈ range 2, ∑ j ∈ range 2, v i * ent exB i j * v j = (v 0 + v 1) ^ 2 := by
    simp [Finset.sum_range_succ, ent, exB]; ring
  rw [e]; positivity

/-- … and the density succeeds once `reg·I` is added (`_e_step`'s `cov + np.eye(d) * reg_covar`) -/
example : ∃ l, logpdfCol (fun _ => false) 2 (addDiag (1 / 1000000) exB) [0, 0] [[1, 2], [3, 4], [5, 6]] = some l ∧
    l.length = 3 := by
  apply logpdfCol_addDiag_some (fun _ => false) 2 exB _ _ _ rfl exB_sq exB_sym exB_psd (by norm_num)
  · intro x hx; simp at hx; rcases hx with rfl | rfl | rfl <;> rfl
  · rfl

example : addDiag (1 / 2) exB = [[3 / 2, 1], [1, 3 / 2]] := by
  simp [addDiag, exB, List.zipIdx]; norm_num

example : ∃ y, fwdAux [⟨[], 2⟩, ⟨[1], Real.sqrt 2⟩] [3, 5] [] = some y ∧ y.length = 2 :=
  fwdAux_some _ _ _ rfl

example : diagMat ([2, 3] : List ℝ) = [[2, 0], [0, 3]] := by
  simp [diagMat, List.zipIdx, List.range, List.range.loop]

example : PSDL 2 (diagMat ([2, 3] : List ℝ)) :=
  (diagMat_psd [2, 3] (by intro x hx; simp at hx; rcases hx with rfl | rfl <;> norm_num)).2.2

example : PDL 2 (scaledEye 2 (1 / 1000000)) := (scaledEye_pd 2 _ (by norm_num)).2.2

example : PSDL 2 (covFull (1 / 10) 2 [1, 2] [[1, -1], [0, 3]]) :=
  (covFull_psd (1 / 10) 2 [1, 2] [[1, -1], [0, 3]] (by norm_num)
    (by intro w hw; simp at hw; rcases hw with rfl | rfl <;> norm_num)
    (by intro r hr; simp at hr; rcases hr with rfl | rfl <;> rfl)).2.2

end Lemmas.CholList

