import TempestVerif.Sc
import Mathlib.Data.Real.Basic
import Mathlib.Algebra.Order.Floor.Ring
import Mathlib.Analysis.SpecialFunctions.Log.Basic
import Mathlib.Analysis.SpecialFunctions.Sqrt
/-
  The `ℝ` instance of the scalar interface, used only in proofs.  Every field is the Mathlib
  operation; the simp lemmas below unfold the interface so that theorems read as ordinary real analysis.
-/
open Classical in
noncomputable instance instScReal : Sc ℝ where
  add := (· + ·)
  sub := (· - ·)
  mul := (· * ·)
  div := (· / ·)
  neg := fun a => -a
  ofNat := fun n => (n : ℝ)
  lit := fun m e => (m : ℝ) / (10 : ℝ) ^ e
  lt := fun a b => decide (a < b)
  le := fun a b => decide (a ≤ b)
  floor := fun a => (⌊a⌋ : ℝ)
  isEven := fun n => decide (⌊n⌋ % 2 = 0)

noncomputable instance instScTReal : ScT ℝ where
  exp := Real.exp
  log := Real.log
  sqrt := Real.sqrt

namespace ScReal
@[simp] theorem add_def (a b : ℝ) : Sc.add a b = a + b := rfl
@[simp] theorem sub_def (a b : ℝ) : Sc.sub a b = a - b := rfl
@[simp] theorem mul_def (a b : ℝ) : Sc.mul a b = a * b := rfl
@[simp] theorem div_def (a b : ℝ) : Sc.div a b = a / b := rfl
@[simp] theorem neg_def (a : ℝ) : Sc.neg a = -a := rfl
@[simp] theorem ofNat_def (n : Nat) : (Sc.ofNat n : ℝ) = (n : ℝ) := rfl
@[simp] theorem lit_def (m e : Nat) : (Sc.lit m e : ℝ) = (m : ℝ) / (10 : ℝ) ^ e := rfl
@[simp] theorem zero_def : (Sc.zero : ℝ) = 0 := by simp [Sc.zero]
@[simp] theorem one_def : (Sc.one : ℝ) = 1 := by simp [Sc.one]
@[simp] theorem two_def : (Sc.two : ℝ) = 2 := by simp [Sc.two]
@[simp] theorem lt_def (a b : ℝ) : Sc.lt a b = true ↔ a < b := by simp [Sc.lt]
@[simp] theorem le_def (a b : ℝ) : Sc.le a b = true ↔ a ≤ b := by simp [Sc.le]
@[simp] theorem lt_false (a b : ℝ) : Sc.lt a b = false ↔ b ≤ a := by simp [Sc.lt]
@[simp] theorem le_false (a b : ℝ) : Sc.le a b = false ↔ b < a := by simp [Sc.le]
@[simp] theorem gt_def (a b : ℝ) : Sc.gt a b = true ↔ b < a := by simp [Sc.gt]
@[simp] theorem ge_def (a b : ℝ) : Sc.ge a b = true ↔ b ≤ a := by simp [Sc.ge]
@[simp] theorem floor_def (a : ℝ) : Sc.floor a = (⌊a⌋ : ℝ) := rfl
@[simp] theorem isEven_def (n : ℝ) : Sc.isEven n = true ↔ ⌊n⌋ % 2 = 0 := by simp [Sc.isEven]
@[simp] theorem exp_def (a : ℝ) : ScT.exp a = Real.exp a := rfl
@[simp] theorem log_def (a : ℝ) : ScT.log a = Real.log a := rfl
@[simp] theorem sqrt_def (a : ℝ) : ScT.sqrt a = Real.sqrt a := rfl
theorem abs_def (a : ℝ) : Sc.abs a = |a| := by
  unfold Sc.abs; split
  · rename_i h; simp at h; simp [abs_of_neg h]
  · rename_i h; simp at h; simp [abs_of_nonneg h]
theorem max_def (a b : ℝ) : Sc.max a b = max a b := by
  unfold Sc.max; split
  · rename_i h; simp at h; simp [max_eq_right h.le]
  · rename_i h; simp at h; simp [max_eq_left h]
theorem min_def (a b : ℝ) : Sc.min a b = min a b := by
  unfold Sc.min; split
  · rename_i h; simp at h; simp [min_eq_right h.le]
  · rename_i h; simp at h; simp [min_eq_left h]
end ScReal
