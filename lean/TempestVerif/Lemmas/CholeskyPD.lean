import Mathlib.LinearAlgebra.Matrix.PosDef
import Mathlib.Analysis.Matrix.Order
import Mathlib.Algebra.Order.Star.Real
import Mathlib.LinearAlgebra.Matrix.NonsingularInverse
import Mathlib.LinearAlgebra.Matrix.Block
import Mathlib.Tactic
/-
  What a Cholesky factor certifies (used by C14; reusable by C19).

  `np.linalg.cholesky(A)` (LAPACK `potrf`, lower) reads ONLY the lower triangle of `A` and either raises or returns a
  lower-triangular `L` with positive diagonal such that `L Lᵀ` is the symmetric matrix `symLower A` whose lower triangle is `A`'s.
  This file proves, over ℝ: such an `L` exists  ⇒  `symLower A` is positive definite (and `symLower A = A` when `A` is symmetric).
-/
namespace Lemmas.CholeskyPD
open Matrix

variable {d : ℕ}

/-- the symmetric matrix LAPACK actually factorises: lower triangle of `A`, mirrored -/
def symLower (A : Matrix (Fin d) (Fin d) ℝ) : Matrix (Fin d) (Fin d) ℝ :=
  fun i j => if j ≤ i then A i j else A j i

theorem symLower_isSymm (A : Matrix (Fin d) (Fin d) ℝ) : (symLower A).IsSymm := by
  ext i j
  simp only [symLower, Matrix.transpose_apply]
  by_cases h1 : i ≤ j <;> by_cases h2 : j ≤ i
  · have : i = j := le_antisymm h1 h2
    subst this; simp
  · simp [h1, h2]
  · simp [h1, h2]
  · exact absurd (le_of_lt (not_le.1 h1)) h2

theorem symLower_of_isSymm (A : Matrix (Fin d) (Fin d) ℝ) (h : A.IsSymm) : symLower A = A := by
  ext i j
  simp only [symLower]
  split
  · rfl
  · exact congrFun (congrFun h i) j ▸ rfl

/-- the contract of a successful Cholesky factorisation -/
structure IsCholeskyFactor (A L : Matrix (Fin d) (Fin d) ℝ) : Prop where
  lower : ∀ i j, i < j → L i j = 0
  diag_pos : ∀ i, 0 < L i i
  factor : L * Lᵀ = symLower A

/-- a lower-triangular matrix with positive diagonal is invertible -/
theorem det_ne_zero_of_lower (L : Matrix (Fin d) (Fin d) ℝ) (hl : ∀ i j, i < j → L i j = 0) (hd : ∀ i, 0 < L i i) :
    L.det ≠ 0 := by
  have htri : L.IsLowerTriangular := by
    intro i j hij
    exact hl i j (by simpa using hij)
  rw [Matrix.det_of_isLowerTriangular L htri]
  exact Finset.prod_ne_zero_iff.2 fun i _ => (hd i).ne'

/-- **a Cholesky factor certifies positive definiteness** -/
theorem posDef_of_factor (A L : Matrix (Fin d) (Fin d) ℝ) (h : IsCholeskyFactor A L) : (symLower A).PosDef := by
  have hdet := det_ne_zero_of_lower L h.lower h.diag_pos
  have hunit : IsUnit L := (Matrix.isUnit_iff_isUnit_det L).2 (isUnit_iff_ne_zero.2 hdet)
  have hinj : Function.Injective L.vecMul := by
    intro v w hvw
    obtain ⟨Linv, hLinv⟩ := hunit.exists_right_inv
    have := congrArg (fun x => Matrix.vecMul x Linv) hvw
    simpa [Matrix.vecMul_vecMul, hLinv] using this
  have := Matrix.PosDef.mul_conjTranspose_self L hinj
  rw [← h.factor]
  simpa [Matrix.conjTranspose_eq_transpose_of_trivial] using this

theorem posDef_of_factor_of_isSymm (A L : Matrix (Fin d) (Fin d) ℝ) (hs : A.IsSymm) (h : IsCholeskyFactor A L) : A.PosDef := by
  have := posDef_of_factor A L h
  rwa [symLower_of_isSymm A hs] at this

end Lemmas.CholeskyPD
