import TempestVerif.Lemmas.ScRound
/-
  Reals with a NaN, under rounded arithmetic — a proof-only instance of the scalar interface for statements about what
  the code does when an oracle answers NaN and every temperature operation is rounded (property C05, second pass).

  `FN r`: `⟨some x⟩` is the finite number `x`, `⟨none⟩` is NaN.  Arithmetic on two numbers is the exact real operation followed
  by the rounding `r.rnd` (any monotone idempotent rounding fixing 0 and 1: `Rounding` of `Lemmas/ScRound.lean`); an operation
  with a NaN operand is NaN; `x / 0` is NaN here (IEEE gives ±inf or NaN: infinities and overflow are NOT modelled — in the
  reweighting model an infinite oracle answer only ever meets `np.isfinite` (an arbitrary parameter `fin` of every theorem) and
  comparisons with a finite target, where it behaves like a large finite number of the same sign).  Comparisons with a NaN are
  False, as in IEEE-754.  Naturals are exact (`Sc.ofNat`, values below 2^53).
-/
structure FN (r : Rounding) where
  v : Option ℝ

namespace FN
variable {r : Rounding}

def nan : FN r := ⟨none⟩
def num (r : Rounding) (x : ℝ) : FN r := ⟨some x⟩

/-- exact binary operation followed by rounding; NaN-propagating -/
def lift2 (f : ℝ → ℝ → ℝ) (a b : FN r) : FN r :=
  ⟨match a.v, b.v with
   | some x, some y => some (r.rnd (f x y))
   | _, _ => none⟩

open Classical in
noncomputable instance instSc (r : Rounding) : Sc (FN r) where
  add := lift2 (· + ·)
  sub := lift2 (· - ·)
  mul := lift2 (· * ·)
  div := fun a b => ⟨match a.v, b.v with
    | some x, some y => if y = 0 then none else some (r.rnd (x / y))
    | _, _ => none⟩
  neg := fun a => ⟨a.v.map (fun x => -x)⟩
  ofNat := fun n => ⟨some (n : ℝ)⟩
  lit := fun m e => ⟨some (r.rnd ((m : ℝ) / (10 : ℝ) ^ e))⟩
  lt := fun a b => match a.v, b.v with
    | some x, some y => decide (x < y)
    | _, _ => false
  le := fun a b => match a.v, b.v with
    | some x, some y => decide (x ≤ y)
    | _, _ => false
  floor := fun a => ⟨a.v.map (fun x => (⌊x⌋ : ℝ))⟩
  isEven := fun a => match a.v with
    | some x => decide (⌊x⌋ % 2 = 0)
    | none => false

@[simp] theorem add_num (x y : ℝ) : Sc.add (num r x) (num r y) = num r (r.rnd (x + y)) := rfl
@[simp] theorem sub_num (x y : ℝ) : Sc.sub (num r x) (num r y) = num r (r.rnd (x - y)) := rfl
@[simp] theorem mul_num (x y : ℝ) : Sc.mul (num r x) (num r y) = num r (r.rnd (x * y)) := rfl
@[simp] theorem lit_num (m e : Nat) : (Sc.lit m e : FN r) = num r (r.rnd ((m : ℝ) / (10 : ℝ) ^ e)) := rfl
@[simp] theorem ofNat_num (n : Nat) : (Sc.ofNat n : FN r) = num r (n : ℝ) := rfl
theorem one_num : (Sc.one : FN r) = num r 1 := by simp [Sc.one]
theorem zero_num : (Sc.zero : FN r) = num r 0 := by simp [Sc.zero]
@[simp] theorem le_num (x y : ℝ) : Sc.le (num r x) (num r y) = true ↔ x ≤ y := by simp [Sc.le, num]
@[simp] theorem lt_num (x y : ℝ) : Sc.lt (num r x) (num r y) = true ↔ x < y := by simp [Sc.lt, num]
/-- every comparison with NaN is False -/
theorem le_nan_left (b : FN r) : Sc.le (nan : FN r) b = false := rfl
theorem le_nan_right (a : FN r) : Sc.le a (nan : FN r) = false := by
  cases a with | mk v => cases v <;> rfl
theorem lt_nan_left (b : FN r) : Sc.lt (nan : FN r) b = false := rfl
theorem lt_nan_right (a : FN r) : Sc.lt a (nan : FN r) = false := by
  cases a with | mk v => cases v <;> rfl

/-- `a` and `b` are numbers (not NaN), both representable, and `a ≤ b` -/
def leRep (a b : FN r) : Prop := ∃ x y : ℝ, a.v = some x ∧ b.v = some y ∧ r.rnd x = x ∧ r.rnd y = y ∧ x ≤ y

theorem leRep_num {x y : ℝ} : leRep (num r x) (num r y) ↔ r.rnd x = x ∧ r.rnd y = y ∧ x ≤ y := by
  constructor
  · rintro ⟨a, b, ha, hb, h1, h2, h3⟩
    simp only [num, Option.some.injEq] at ha hb
    subst ha; subst hb; exact ⟨h1, h2, h3⟩
  · rintro ⟨h1, h2, h3⟩; exact ⟨x, y, rfl, rfl, h1, h2, h3⟩

end FN

/-- the two facts about binary floating point (any IEEE rounding direction) the midpoint argument needs:
    1/2 is representable, and doubling a representable number is exact (no overflow: temperatures live in [0, 2]) -/
structure BinaryRounding (r : Rounding) : Prop where
  half : r.rnd (1 / 2) = 1 / 2
  dbl : ∀ x, r.rnd x = x → r.rnd (2 * x) = 2 * x
