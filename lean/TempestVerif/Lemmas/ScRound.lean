import TempestVerif.Sc
import Mathlib.Data.Real.Basic
import Mathlib.Algebra.Order.Archimedean.Real.Basic
import Mathlib.Algebra.Order.Floor.Ring
import Mathlib.Algebra.Order.Round
import Mathlib.Order.Monotone.Basic
/-
  A rounded-arithmetic instance of the scalar interface, used only in proofs.

  `Rounding` axiomatises the two facts about IEEE-754 round-to-nearest(-even) that the boundary maps
  (C16) depend on: the rounding of an exact result is MONOTONE and IDEMPOTENT (a representable value
  rounds to itself), and `0` and `1` are representable.  Every arithmetic field of `Sc (RR r)` is the
  exact real operation followed by `r.rnd`; `floor`, comparisons and the parity test are exact (they
  are exact on doubles: `np.floor` of a finite double is a double, `np.mod(n, 2.0)` of an integral
  double is exact).  Nothing here says the rounding is *close* to the exact value: the theorems that
  use this instance hold for every monotone idempotent rounding (round-to-nearest, directed roundings,
  even `⌈·⌉`), hence in particular for binary64.  Overflow is not modelled (the boundary maps never
  produce a magnitude above the input's).
-/
structure Rounding where
  rnd : ℝ → ℝ
  mono : Monotone rnd
  idem : ∀ x, rnd (rnd x) = rnd x
  rnd_zero : rnd 0 = 0
  rnd_one : rnd 1 = 1

/-- the reals, computed with `r`-rounded arithmetic -/
def RR (_r : Rounding) : Type := ℝ

namespace RR
variable {r : Rounding}
/-- the underlying real number -/
def val (x : RR r) : ℝ := x
/-- a real number read as an `r`-scalar (no rounding: inputs need not be representable) -/
def mk (r : Rounding) (x : ℝ) : RR r := x
@[simp] theorem val_mk (x : ℝ) : (mk r x).val = x := rfl
@[simp] theorem mk_val (x : RR r) : mk r x.val = x := rfl
theorem ext {x y : RR r} (h : x.val = y.val) : x = y := h
end RR

open Classical in
noncomputable instance instScRR (r : Rounding) : Sc (RR r) where
  add := fun a b => RR.mk r (r.rnd (a.val + b.val))
  sub := fun a b => RR.mk r (r.rnd (a.val - b.val))
  mul := fun a b => RR.mk r (r.rnd (a.val * b.val))
  div := fun a b => RR.mk r (r.rnd (a.val / b.val))
  neg := fun a => RR.mk r (-a.val)
  ofNat := fun n => RR.mk r (n : ℝ)
  lit := fun m e => RR.mk r (r.rnd ((m : ℝ) / (10 : ℝ) ^ e))
  lt := fun a b => decide (a.val < b.val)
  le := fun a b => decide (a.val ≤ b.val)
  floor := fun a => RR.mk r (⌊a.val⌋ : ℝ)
  isEven := fun n => decide (⌊n.val⌋ % 2 = 0)

namespace ScRound
variable {r : Rounding}
@[simp] theorem sub_val (a b : RR r) : (Sc.sub a b).val = r.rnd (a.val - b.val) := rfl
@[simp] theorem add_val (a b : RR r) : (Sc.add a b).val = r.rnd (a.val + b.val) := rfl
@[simp] theorem floor_val (a : RR r) : (Sc.floor a).val = (⌊a.val⌋ : ℝ) := rfl
@[simp] theorem one_val : (Sc.one : RR r).val = 1 := by simp [Sc.one, Sc.ofNat, RR.val, RR.mk]
@[simp] theorem zero_val : (Sc.zero : RR r).val = 0 := by simp [Sc.zero, Sc.ofNat, RR.val, RR.mk]
@[simp] theorem isEven_iff (n : RR r) : Sc.isEven n = true ↔ ⌊n.val⌋ % 2 = 0 := by simp [Sc.isEven]
@[simp] theorem le_iff (a b : RR r) : Sc.le a b = true ↔ a.val ≤ b.val := by simp [Sc.le]
@[simp] theorem lt_iff (a b : RR r) : Sc.lt a b = true ↔ a.val < b.val := by simp [Sc.lt]

/-- exact arithmetic is a rounding -/
def exact : Rounding := ⟨id, monotone_id, fun _ => rfl, rfl, rfl⟩

/-- rounding up to the next integer: a (coarse) monotone idempotent rounding fixing 0 and 1 -/
noncomputable def ceilR : Rounding where
  rnd := fun x => (⌈x⌉ : ℝ)
  mono := fun a b h => by
    show ((⌈a⌉ : ℤ) : ℝ) ≤ ((⌈b⌉ : ℤ) : ℝ)
    exact_mod_cast Int.ceil_mono h
  idem := fun x => by simp
  rnd_zero := by simp
  rnd_one := by simp
end ScRound
