import Mathlib.MeasureTheory.Measure.Lebesgue.Basic
import Mathlib.MeasureTheory.Measure.Lebesgue.EqHaar
import Mathlib.MeasureTheory.Measure.Haar.Unique
import Mathlib.MeasureTheory.Group.LIntegral
import Mathlib.MeasureTheory.Measure.WithDensity
import Mathlib.MeasureTheory.Function.Floor
import Mathlib.MeasureTheory.Constructions.Polish.Basic
import Mathlib.Tactic
/-
  Push-forward of a Lebesgue density on ℝ under the REFLECTIVE fold (the triangle wave of `apply_boundary_conditions`;
  C03 clause 8 in one dimension).

      tri x = fract x        if ⌊x⌋ is even
            = 1 − fract x    if ⌊x⌋ is odd

  ℝ is the disjoint union of the cells `⌊x⌋ = 2k` (where `tri x = x − 2k`) and `⌊x⌋ = 2k − 1` (where `tri x = 2k − x`), so

      (volume.withDensity f).map tri = volume.withDensity (1_{(0,1)} · Σ_k (f (· + 2k) + f (2k − ·)))       (`map_tri_withDensity`)
-/
namespace Lemmas.FoldPush
open MeasureTheory Set
open scoped ENNReal Function

/-- the reflective fold of one coordinate -/
noncomputable def tri (x : ℝ) : ℝ := if ⌊x⌋ % 2 = 0 then Int.fract x else 1 - Int.fract x

/-- cells: `(k, false)` is `⌊x⌋ = 2k`, `(k, true)` is `⌊x⌋ = 2k − 1` -/
def cellR (p : ℤ × Bool) : Set ℝ := {x | ⌊x⌋ = 2 * p.1 - (if p.2 then 1 else 0)}

theorem measurableSet_cellR (p : ℤ × Bool) : MeasurableSet (cellR p) :=
  Int.measurable_floor (measurableSet_singleton _)

theorem iUnion_cellR : ⋃ p : ℤ × Bool, cellR p = univ := by
  ext x
  simp only [mem_iUnion, mem_univ, iff_true, cellR, mem_ofPred_eq]
  by_cases h : ⌊x⌋ % 2 = 0
  · exact ⟨(⌊x⌋ / 2, false), by simp; omega⟩
  · exact ⟨((⌊x⌋ + 1) / 2, true), by simp; omega⟩

theorem disjoint_cellR : Pairwise (Disjoint on cellR) := by
  intro p q hne
  rw [Function.onFun, Set.disjoint_left]
  intro x hx hy
  apply hne
  simp only [cellR, mem_ofPred_eq] at hx hy
  rcases p with ⟨k, b⟩
  rcases q with ⟨k', b'⟩
  cases b <;> cases b' <;> simp at hx hy ⊢ <;> omega

theorem tri_even {x : ℝ} {k : ℤ} (h : ⌊x⌋ = 2 * k) : tri x = x - (2 * (k : ℝ)) := by
  unfold tri
  have : ⌊x⌋ % 2 = 0 := by omega
  rw [if_pos this, ← Int.self_sub_floor, h]
  push_cast; ring

theorem tri_odd {x : ℝ} {k : ℤ} (h : ⌊x⌋ = 2 * k - 1) : tri x = (2 * (k : ℝ)) - x := by
  unfold tri
  have : ¬ ⌊x⌋ % 2 = 0 := by omega
  rw [if_neg this, ← Int.self_sub_floor, h]
  push_cast; ring

theorem measurable_tri : Measurable tri := by
  unfold tri
  refine Measurable.ite ?_ measurable_fract (measurable_const.sub measurable_fract)
  have hm : Measurable fun x : ℝ => ⌊x⌋ % 2 := (measurable_from_top (f := fun n : ℤ => n % 2)).comp Int.measurable_floor
  exact hm (measurableSet_singleton 0)

theorem mem_cellR_false_add (k : ℤ) (y : ℝ) : y + (2 * (k : ℝ)) ∈ cellR (k, false) ↔ y ∈ Ico (0 : ℝ) 1 := by
  have hc : y + 2 * (k : ℝ) = y + ((2 * k : ℤ) : ℝ) := by push_cast; ring
  simp only [cellR, mem_ofPred_eq, hc, Int.floor_add_intCast, Bool.false_eq_true, if_false, sub_zero, mem_Ico]
  constructor
  · intro h
    have h0 : ⌊y⌋ = 0 := by omega
    have := Int.floor_eq_iff.1 h0
    simpa using this
  · intro h
    have h0 : ⌊y⌋ = 0 := by rw [Int.floor_eq_iff]; simpa using h
    omega

theorem mem_cellR_true_sub (k : ℤ) (y : ℝ) : (2 * (k : ℝ)) - y ∈ cellR (k, true) ↔ y ∈ Ioc (0 : ℝ) 1 := by
  simp only [cellR, mem_ofPred_eq, if_true, mem_Ioc]
  rw [Int.floor_eq_iff]
  push_cast
  constructor
  · rintro ⟨h1, h2⟩; constructor <;> linarith
  · rintro ⟨h1, h2⟩; constructor <;> linarith

/-- **integration against the reflective fold** -/
theorem lintegral_tri (f G : ℝ → ℝ≥0∞) :
    ∫⁻ x, G (tri x) * f x
      = ∑' k : ℤ, ((∫⁻ y in Ico (0 : ℝ) 1, G y * f (y + (2 * (k : ℝ)))) + ∫⁻ y in Ioc (0 : ℝ) 1, G y * f ((2 * (k : ℝ)) - y)) := by
  have hE : ∀ k : ℤ, ∫⁻ x in cellR (k, false), G (tri x) * f x = ∫⁻ y in Ico (0 : ℝ) 1, G y * f (y + (2 * (k : ℝ))) := by
    intro k
    have h1 : ∫⁻ x in cellR (k, false), G (tri x) * f x = ∫⁻ x in cellR (k, false), G (x - (2 * (k : ℝ))) * f x :=
      setLIntegral_congr_fun (measurableSet_cellR _) fun x hx => by
        have : ⌊x⌋ = 2 * k := by simpa [cellR] using hx
        rw [tri_even this]
    rw [h1, ← lintegral_indicator (measurableSet_cellR _), ← lintegral_indicator measurableSet_Ico,
      ← lintegral_add_right_eq_self _ ((2 * (k : ℝ)) : ℝ)]
    refine lintegral_congr fun y => ?_
    by_cases hy : y ∈ Ico (0 : ℝ) 1
    · have hy' := (mem_cellR_false_add k y).2 hy
      simp [hy, hy']
    · have hy' : y + (2 * (k : ℝ)) ∉ cellR (k, false) := fun h => hy ((mem_cellR_false_add k y).1 h)
      simp [hy, hy']
  have hO : ∀ k : ℤ, ∫⁻ x in cellR (k, true), G (tri x) * f x = ∫⁻ y in Ioc (0 : ℝ) 1, G y * f ((2 * (k : ℝ)) - y) := by
    intro k
    have h1 : ∫⁻ x in cellR (k, true), G (tri x) * f x = ∫⁻ x in cellR (k, true), G ((2 * (k : ℝ)) - x) * f x :=
      setLIntegral_congr_fun (measurableSet_cellR _) fun x hx => by
        have : ⌊x⌋ = 2 * k - 1 := by simpa [cellR] using hx
        rw [tri_odd this]
    rw [h1, ← lintegral_indicator (measurableSet_cellR _), ← lintegral_indicator measurableSet_Ioc,
      ← lintegral_sub_left_eq_self _ ((2 * (k : ℝ)) : ℝ)]
    refine lintegral_congr fun y => ?_
    by_cases hy : y ∈ Ioc (0 : ℝ) 1
    · have hy' := (mem_cellR_true_sub k y).2 hy
      simp [hy, hy']
    · have hy' : (2 * (k : ℝ)) - y ∉ cellR (k, true) := fun h => hy ((mem_cellR_true_sub k y).1 h)
      simp [hy, hy']
  calc ∫⁻ x, G (tri x) * f x = ∫⁻ x in ⋃ p : ℤ × Bool, cellR p, G (tri x) * f x := by
        rw [iUnion_cellR, Measure.restrict_univ]
    _ = ∑' p : ℤ × Bool, ∫⁻ x in cellR p, G (tri x) * f x :=
        lintegral_iUnion measurableSet_cellR disjoint_cellR _
    _ = ∑' k : ℤ, ∑' b : Bool, ∫⁻ x in cellR (k, b), G (tri x) * f x :=
        ENNReal.tsum_prod (f := fun k b => ∫⁻ x in cellR (k, b), G (tri x) * f x)
    _ = _ := by
        refine tsum_congr fun k => ?_
        rw [tsum_bool, hE, hO]

/-- the reflected density on the open unit interval: sum over both families of preimages -/
noncomputable def reflDensity (f : ℝ → ℝ≥0∞) (y : ℝ) : ℝ≥0∞ :=
  (Ioo (0 : ℝ) 1).indicator (fun y => ∑' k : ℤ, (f (y + (2 * (k : ℝ))) + f ((2 * (k : ℝ)) - y))) y

/-- **the push-forward of a Lebesgue density under the reflective fold has the reflected density** -/
theorem map_tri_withDensity {f : ℝ → ℝ≥0∞} (hf : Measurable f) :
    ((volume : Measure ℝ).withDensity f).map tri = volume.withDensity (reflDensity f) := by
  ext B hB
  rw [Measure.map_apply measurable_tri hB, withDensity_apply _ (measurable_tri hB), withDensity_apply _ hB]
  have h1 : ∫⁻ x in tri ⁻¹' B, f x = ∫⁻ x, B.indicator 1 (tri x) * f x := by
    rw [← lintegral_indicator (measurable_tri hB)]
    refine lintegral_congr fun x => ?_
    by_cases hx : tri x ∈ B
    · have : x ∈ tri ⁻¹' B := hx
      simp [hx, this]
    · have : x ∉ tri ⁻¹' B := hx
      simp [hx, this]
  have hGm : Measurable (B.indicator (1 : ℝ → ℝ≥0∞)) := measurable_one.indicator hB
  rw [h1, lintegral_tri f _]
  have hIco : ∀ k : ℤ, ∫⁻ y in Ico (0 : ℝ) 1, B.indicator 1 y * f (y + (2 * (k : ℝ)))
      = ∫⁻ y in Ioo (0 : ℝ) 1, B.indicator 1 y * f (y + (2 * (k : ℝ))) := fun k =>
    setLIntegral_congr Ioo_ae_eq_Ico.symm
  have hIoc : ∀ k : ℤ, ∫⁻ y in Ioc (0 : ℝ) 1, B.indicator 1 y * f ((2 * (k : ℝ)) - y)
      = ∫⁻ y in Ioo (0 : ℝ) 1, B.indicator 1 y * f ((2 * (k : ℝ)) - y) := fun k =>
    setLIntegral_congr Ioo_ae_eq_Ioc.symm
  simp_rw [hIco, hIoc]
  have hm1 : ∀ k : ℤ, Measurable fun y => B.indicator 1 y * f (y + (2 * (k : ℝ))) := fun k =>
    hGm.mul (hf.comp (measurable_id.add measurable_const))
  have hm2 : ∀ k : ℤ, Measurable fun y => B.indicator 1 y * f ((2 * (k : ℝ)) - y) := fun k =>
    hGm.mul (hf.comp (measurable_const.sub measurable_id))
  have hsum : ∑' k : ℤ, ((∫⁻ y in Ioo (0 : ℝ) 1, B.indicator 1 y * f (y + (2 * (k : ℝ))))
        + ∫⁻ y in Ioo (0 : ℝ) 1, B.indicator 1 y * f ((2 * (k : ℝ)) - y))
      = ∫⁻ y in Ioo (0 : ℝ) 1, B.indicator 1 y * ∑' k : ℤ, (f (y + (2 * (k : ℝ))) + f ((2 * (k : ℝ)) - y)) := by
    simp_rw [← lintegral_add_left (hm1 _)]
    rw [← lintegral_tsum (f := fun (k : ℤ) y => B.indicator 1 y * f (y + 2 * (k : ℝ)) + B.indicator 1 y * f (2 * (k : ℝ) - y))
      fun k => ((hm1 k).add (hm2 k)).aemeasurable]
    refine lintegral_congr fun y => ?_
    rw [← ENNReal.tsum_mul_left]
    refine tsum_congr fun k => ?_
    ring
  rw [hsum, ← lintegral_indicator measurableSet_Ioo, ← lintegral_indicator hB]
  refine lintegral_congr fun y => ?_
  unfold reflDensity
  by_cases hy : y ∈ Ioo (0 : ℝ) 1 <;> by_cases hyB : y ∈ B <;> simp [hy, hyB]

end Lemmas.FoldPush
