import TempestVerif.Model.StateMgr
/-
  Helper lemmas about the StateManager reference model (C17): heap cells, `_ensure_copy` loops,
  association lists, reachable addresses, and commutation of every allocation with an in-place write
  (`List.set`) at an address that the allocation does not read.  Core Lean only.
-/
namespace Model.StateMgr

/-! ### heap cells -/

theorem rd_append_lt {h : Heap} {e : Heap} {a : Nat} (ha : a < h.length) : rd (h ++ e) a = rd h a := by
  simp [rd, List.getElem?_append_left ha]

theorem rd_append_self {h : Heap} {c : Option Content} : rd (h ++ [c]) h.length = c := by
  simp [rd]

theorem rd_set_ne {h : Heap} {a b : Nat} {c : Option Content} (hne : a ≠ b) : rd (h.set a c) b = rd h b := by
  simp [rd, List.getElem?_set_ne hne]

theorem set_append_lt {h : Heap} {a : Nat} {c x : Option Content} (ha : a < h.length) :
    h.set a c ++ [x] = (h ++ [x]).set a c := by
  rw [List.set_append_left _ _ ha]

/-- `h'` extends `h` by freshly allocated cells -/
def Ext (h h' : Heap) : Prop := ∃ e, h' = h ++ e

theorem Ext.refl (h : Heap) : Ext h h := ⟨[], by simp⟩
theorem Ext.trans {h1 h2 h3 : Heap} (a : Ext h1 h2) (b : Ext h2 h3) : Ext h1 h3 := by
  obtain ⟨e1, rfl⟩ := a; obtain ⟨e2, rfl⟩ := b; exact ⟨e1 ++ e2, by simp⟩
theorem Ext.snoc (h : Heap) (c : Option Content) : Ext h (h ++ [c]) := ⟨[c], rfl⟩
theorem Ext.le {h h' : Heap} (e : Ext h h') : h.length ≤ h'.length := by
  obtain ⟨e, rfl⟩ := e; simp
theorem Ext.rd {h h' : Heap} (e : Ext h h') {a : Nat} (ha : a < h.length) : rd h' a = rd h a := by
  obtain ⟨e, rfl⟩ := e; exact rd_append_lt ha

/-! ### membership in address lists -/

theorem mem_dictAddrs {d : List (Key × Val)} {a : Nat} : a ∈ dictAddrs d ↔ ∃ k, (k, Val.ref a) ∈ d := by
  simp only [dictAddrs, List.mem_flatMap]
  constructor
  · rintro ⟨⟨k, v⟩, hm, hv⟩
    cases v <;> simp [Val.addrs] at hv
    subst hv; exact ⟨k, hm⟩
  · rintro ⟨k, hm⟩
    exact ⟨(k, Val.ref a), hm, by simp [Val.addrs]⟩

theorem mem_listAddrs {l : List Val} {a : Nat} : a ∈ listAddrs l ↔ Val.ref a ∈ l := by
  simp only [listAddrs, List.mem_flatMap]
  constructor
  · rintro ⟨v, hm, hv⟩
    cases v <;> simp [Val.addrs] at hv
    subst hv; exact hm
  · intro hm
    exact ⟨Val.ref a, hm, by simp [Val.addrs]⟩

theorem mem_histAddrs {d : List (Key × List Val)} {a : Nat} :
    a ∈ histAddrs d ↔ ∃ k l, (k, l) ∈ d ∧ Val.ref a ∈ l := by
  simp only [histAddrs, List.mem_flatMap, mem_listAddrs]
  constructor
  · rintro ⟨⟨k, l⟩, hm, hv⟩; exact ⟨k, l, hm, hv⟩
  · rintro ⟨k, l, hm, hv⟩; exact ⟨(k, l), hm, hv⟩

theorem mem_addrs_ref {v : Val} {a : Nat} : a ∈ v.addrs ↔ v = Val.ref a := by
  cases v <;> simp [Val.addrs, eq_comm]

/-! ### association lists -/

theorem mem_insert {β : Type} {k : Key} {v : β} {d : List (Key × β)} {x : Key × β} :
    x ∈ insert k v d → x ∈ d ∨ x = (k, v) := by
  induction d with
  | nil => simp [insert]
  | cons hd tl ih =>
    obtain ⟨k', v'⟩ := hd
    simp only [insert]
    split
    · intro h; simp only [List.mem_cons] at h ⊢; rcases h with h | h
      · exact Or.inr h
      · exact Or.inl (Or.inr h)
    · intro h; simp only [List.mem_cons] at h ⊢; rcases h with h | h
      · exact Or.inl (Or.inl h)
      · rcases ih h with h | h
        · exact Or.inl (Or.inr h)
        · exact Or.inr h

theorem mem_adjust {β : Type} {k : Key} {f : β → β} {d : List (Key × β)} {x : Key × β} :
    x ∈ adjust k f d → x ∈ d ∨ ∃ y, (x.1, y) ∈ d ∧ x.2 = f y := by
  induction d with
  | nil => simp [adjust]
  | cons hd tl ih =>
    obtain ⟨k', v'⟩ := hd
    simp only [adjust]
    split
    · intro h; simp only [List.mem_cons] at h ⊢; rcases h with h | h
      · subst h; exact Or.inr ⟨v', Or.inl rfl, rfl⟩
      · exact Or.inl (Or.inr h)
    · intro h; simp only [List.mem_cons] at h ⊢; rcases h with h | h
      · exact Or.inl (Or.inl h)
      · rcases ih h with h | ⟨y, hy, hf⟩
        · exact Or.inl (Or.inr h)
        · exact Or.inr ⟨y, Or.inr hy, hf⟩

theorem mem_updateAll {β : Type} {e d : List (Key × β)} {x : Key × β} :
    x ∈ updateAll d e → x ∈ d ∨ x ∈ e := by
  unfold updateAll
  induction e generalizing d with
  | nil => simp
  | cons hd tl ih =>
    intro h
    simp only [List.foldl_cons] at h
    rcases ih h with h | h
    · rcases mem_insert h with h | h
      · exact Or.inl h
      · exact Or.inr (by rw [h]; simp)
    · exact Or.inr (List.mem_cons_of_mem _ h)

theorem lookup_mem {β : Type} {k : Key} {d : List (Key × β)} {v : β} (h : lookup k d = some v) : (k, v) ∈ d := by
  induction d with
  | nil => simp [lookup] at h
  | cons hd tl ih =>
    obtain ⟨k', v'⟩ := hd
    simp only [lookup] at h
    split at h
    · rename_i hk; simp at h; subst hk; subst h; simp
    · exact List.mem_cons_of_mem _ (ih h)

theorem lookup_adjust {β : Type} {k k' : Key} {f : β → β} {d : List (Key × β)} :
    lookup k' (adjust k f d) = if k = k' then (lookup k' d).map f else lookup k' d := by
  induction d with
  | nil => simp [adjust, lookup]
  | cons hd tl ih =>
    obtain ⟨k2, v2⟩ := hd
    by_cases h1 : k2 = k <;> by_cases h2 : k = k' <;> simp_all [adjust, lookup]

theorem dictAddrs_insert {k : Key} {v : Val} {d : List (Key × Val)} {a : Nat}
    (h : a ∈ dictAddrs (insert k v d)) : a ∈ dictAddrs d ∨ a ∈ v.addrs := by
  rw [mem_dictAddrs] at h
  obtain ⟨k', hm⟩ := h
  rcases mem_insert hm with hm | hm
  · exact Or.inl (mem_dictAddrs.2 ⟨k', hm⟩)
  · simp at hm; exact Or.inr (mem_addrs_ref.2 hm.2.symm)

theorem histAddrs_adjust_snoc {k : Key} {v : Val} {d : List (Key × List Val)} {a : Nat}
    (h : a ∈ histAddrs (adjust k (fun l => l ++ [v]) d)) : a ∈ histAddrs d ∨ a ∈ v.addrs := by
  rw [mem_histAddrs] at h
  obtain ⟨k', l, hm, hl⟩ := h
  rcases mem_adjust hm with hm | ⟨y, hy, hf⟩
  · exact Or.inl (mem_histAddrs.2 ⟨k', l, hm, hl⟩)
  · simp only at hf
    rw [hf] at hl
    simp only [List.mem_append, List.mem_singleton] at hl
    rcases hl with hl | hl
    · exact Or.inl (mem_histAddrs.2 ⟨k', y, hy, hl⟩)
    · exact Or.inr (mem_addrs_ref.2 hl.symm)

theorem dictAddrs_updateAll {e d : List (Key × Val)} {a : Nat}
    (h : a ∈ dictAddrs (updateAll d e)) : a ∈ dictAddrs d ∨ a ∈ dictAddrs e := by
  rw [mem_dictAddrs] at h
  obtain ⟨k, hm⟩ := h
  rcases mem_updateAll hm with hm | hm
  · exact Or.inl (mem_dictAddrs.2 ⟨k, hm⟩)
  · exact Or.inr (mem_dictAddrs.2 ⟨k, hm⟩)

theorem histAddrs_updateAll {e d : List (Key × List Val)} {a : Nat}
    (h : a ∈ histAddrs (updateAll d e)) : a ∈ histAddrs d ∨ a ∈ histAddrs e := by
  rw [mem_histAddrs] at h
  obtain ⟨k, l, hm, hl⟩ := h
  rcases mem_updateAll hm with hm | hm
  · exact Or.inl (mem_histAddrs.2 ⟨k, l, hm, hl⟩)
  · exact Or.inr (mem_histAddrs.2 ⟨k, l, hm, hl⟩)

/-! ### `_ensure_copy` and its loops: heap extension, freshness of the results, commutation with `List.set` -/

theorem copyVal_ext (h : Heap) (v : Val) : Ext h (copyVal h v).1 := by
  cases v <;> simp [copyVal, Ext.refl, Ext.snoc]

theorem copyVal_fresh {h : Heap} {v : Val} {a : Nat} (ha : a ∈ (copyVal h v).2.addrs) :
    h.length ≤ a ∧ a < (copyVal h v).1.length := by
  cases v with
  | none => simp [copyVal, Val.addrs] at ha
  | scalar x => simp [copyVal, Val.addrs] at ha
  | ref b =>
    simp only [copyVal, Val.addrs, List.mem_singleton] at ha
    subst ha
    simp [copyVal]

theorem copyVal_deref (h : Heap) (v : Val) : deref (copyVal h v).1 (copyVal h v).2 = deref h v := by
  cases v <;> simp [copyVal, deref, rd_append_self]

theorem copyVal_set {h : Heap} {v : Val} {a : Nat} {c : Option Content} (ha : a < h.length) (hv : a ∉ v.addrs) :
    copyVal (h.set a c) v = ((copyVal h v).1.set a c, (copyVal h v).2) := by
  cases v with
  | none => simp [copyVal]
  | scalar x => simp [copyVal]
  | ref b =>
    have hne : a ≠ b := by simpa [Val.addrs] using hv
    simp [copyVal, rd_set_ne hne, set_append_lt ha]

theorem copyList_ext (h : Heap) (l : List Val) : Ext h (copyList h l).1 := by
  induction l generalizing h with
  | nil => simp [copyList, Ext.refl]
  | cons v vs ih => simp only [copyList]; exact (copyVal_ext h v).trans (ih _)

theorem copyList_fresh {h : Heap} {l : List Val} {a : Nat} (ha : a ∈ listAddrs (copyList h l).2) :
    h.length ≤ a ∧ a < (copyList h l).1.length := by
  induction l generalizing h with
  | nil => simp [copyList, listAddrs] at ha
  | cons v vs ih =>
    simp only [copyList, listAddrs, List.flatMap_cons, List.mem_append] at ha
    simp only [copyList]
    rcases ha with ha | ha
    · have h1 := copyVal_fresh ha
      have h2 := (copyList_ext (copyVal h v).1 vs).le
      omega
    · have h1 := ih (h := (copyVal h v).1) ha
      have h2 := (copyVal_ext h v).le
      omega

theorem copyList_set {h : Heap} {l : List Val} {a : Nat} {c : Option Content} (ha : a < h.length)
    (hv : a ∉ listAddrs l) : copyList (h.set a c) l = ((copyList h l).1.set a c, (copyList h l).2) := by
  induction l generalizing h with
  | nil => simp [copyList]
  | cons v vs ih =>
    simp only [listAddrs, List.flatMap_cons, List.mem_append, not_or] at hv
    have h1 := copyVal_set (c := c) ha hv.1
    have ha' : a < (copyVal h v).1.length := Nat.lt_of_lt_of_le ha (copyVal_ext h v).le
    have h2 := ih (h := (copyVal h v).1) ha' hv.2
    simp only [copyList, h1, h2]

theorem copyDict_ext (h : Heap) (d : List (Key × Val)) : Ext h (copyDict h d).1 := by
  induction d generalizing h with
  | nil => simp [copyDict, Ext.refl]
  | cons kv r ih => obtain ⟨k, v⟩ := kv; simp only [copyDict]; exact (copyVal_ext h v).trans (ih _)

theorem copyDict_fresh {h : Heap} {d : List (Key × Val)} {a : Nat} (ha : a ∈ dictAddrs (copyDict h d).2) :
    h.length ≤ a ∧ a < (copyDict h d).1.length := by
  induction d generalizing h with
  | nil => simp [copyDict, dictAddrs] at ha
  | cons kv r ih =>
    obtain ⟨k, v⟩ := kv
    simp only [copyDict, dictAddrs, List.flatMap_cons, List.mem_append] at ha
    simp only [copyDict]
    rcases ha with ha | ha
    · have h1 := copyVal_fresh ha
      have h2 := (copyDict_ext (copyVal h v).1 r).le
      omega
    · have h1 := ih (h := (copyVal h v).1) ha
      have h2 := (copyVal_ext h v).le
      omega

theorem copyDict_set {h : Heap} {d : List (Key × Val)} {a : Nat} {c : Option Content} (ha : a < h.length)
    (hv : a ∉ dictAddrs d) : copyDict (h.set a c) d = ((copyDict h d).1.set a c, (copyDict h d).2) := by
  induction d generalizing h with
  | nil => simp [copyDict]
  | cons kv r ih =>
    obtain ⟨k, v⟩ := kv
    simp only [dictAddrs, List.flatMap_cons, List.mem_append, not_or] at hv
    have h1 := copyVal_set (c := c) ha hv.1
    have ha' : a < (copyVal h v).1.length := Nat.lt_of_lt_of_le ha (copyVal_ext h v).le
    have h2 := ih (h := (copyVal h v).1) ha' hv.2
    simp only [copyDict, h1, h2]

theorem copyHist_ext (h : Heap) (d : List (Key × List Val)) : Ext h (copyHist h d).1 := by
  induction d generalizing h with
  | nil => simp [copyHist, Ext.refl]
  | cons kv r ih => obtain ⟨k, l⟩ := kv; simp only [copyHist]; exact (copyList_ext h l).trans (ih _)

theorem copyHist_fresh {h : Heap} {d : List (Key × List Val)} {a : Nat} (ha : a ∈ histAddrs (copyHist h d).2) :
    h.length ≤ a ∧ a < (copyHist h d).1.length := by
  induction d generalizing h with
  | nil => simp [copyHist, histAddrs] at ha
  | cons kv r ih =>
    obtain ⟨k, l⟩ := kv
    simp only [copyHist, histAddrs, List.flatMap_cons, List.mem_append] at ha
    simp only [copyHist]
    rcases ha with ha | ha
    · have h1 := copyList_fresh ha
      have h2 := (copyHist_ext (copyList h l).1 r).le
      omega
    · have h1 := ih (h := (copyList h l).1) ha
      have h2 := (copyList_ext h l).le
      omega

theorem copyHist_set {h : Heap} {d : List (Key × List Val)} {a : Nat} {c : Option Content} (ha : a < h.length)
    (hv : a ∉ histAddrs d) : copyHist (h.set a c) d = ((copyHist h d).1.set a c, (copyHist h d).2) := by
  induction d generalizing h with
  | nil => simp [copyHist]
  | cons kv r ih =>
    obtain ⟨k, l⟩ := kv
    simp only [histAddrs, List.flatMap_cons, List.mem_append, not_or] at hv
    have h1 := copyList_set (c := c) ha hv.1
    have ha' : a < (copyList h l).1.length := Nat.lt_of_lt_of_le ha (copyList_ext h l).le
    have h2 := ih (h := (copyList h l).1) ha' hv.2
    simp only [copyHist, h1, h2]

/-! ### `np.array(list)` / `np.concatenate(list)` -/

theorem cellOf_set {h : Heap} {v : Val} {a : Nat} {c : Option Content} (hv : a ∉ v.addrs) :
    cellOf (h.set a c) v = cellOf h v := by
  cases v with
  | none => rfl
  | scalar x => rfl
  | ref b =>
    have hne : a ≠ b := by simpa [Val.addrs] using hv
    simp [cellOf, rd_set_ne hne]

theorem stack_set {h : Heap} {l : List Val} {a : Nat} {c : Option Content} (hv : a ∉ listAddrs l) :
    stack (h.set a c) l = stack h l := by
  induction l with
  | nil => rfl
  | cons v vs ih =>
    simp only [listAddrs, List.flatMap_cons, List.mem_append, not_or] at hv
    simp only [stack, cellOf_set hv.1, ih hv.2]

theorem fillCache_ext (d : List (Key × List Val)) (h : Heap) (c : List (Key × Val)) : Ext h (fillCache d h c).1 := by
  induction d generalizing h c with
  | nil => simp [fillCache, Ext.refl]
  | cons kv r ih =>
    obtain ⟨k, l⟩ := kv
    simp only [fillCache]
    split
    · exact (Ext.snoc h _).trans (ih _ _)
    · exact Ext.refl h

theorem fillCache_fresh {d : List (Key × List Val)} {h : Heap} {c : List (Key × Val)} {a : Nat}
    (ha : a ∈ dictAddrs (fillCache d h c).2.1) : a ∈ dictAddrs c ∨ (h.length ≤ a ∧ a < (fillCache d h c).1.length) := by
  induction d generalizing h c with
  | nil => simp only [fillCache] at ha; exact Or.inl ha
  | cons kv r ih =>
    obtain ⟨k, l⟩ := kv
    simp only [fillCache] at ha ⊢
    split at ha
    · rename_i hk
      simp only [hk, if_true]
      rcases ih ha with h1 | h1
      · rcases dictAddrs_insert h1 with h2 | h2
        · exact Or.inl h2
        · simp only [Val.addrs, List.mem_singleton] at h2
          have h3 := (fillCache_ext r (h ++ [stack h l]) (insert k (.ref h.length) c)).le
          simp only [List.length_append, List.length_singleton] at h3
          exact Or.inr ⟨by omega, by omega⟩
      · simp only [List.length_append, List.length_singleton] at h1
        exact Or.inr ⟨by omega, h1.2⟩
    · exact Or.inl ha

theorem fillCache_set {d : List (Key × List Val)} {h : Heap} {c : List (Key × Val)} {a : Nat} {x : Option Content}
    (ha : a < h.length) (hv : a ∉ histAddrs d) :
    fillCache d (h.set a x) c = ((fillCache d h c).1.set a x, (fillCache d h c).2) := by
  induction d generalizing h c with
  | nil => simp [fillCache]
  | cons kv r ih =>
    obtain ⟨k, l⟩ := kv
    simp only [histAddrs, List.flatMap_cons, List.mem_append, not_or] at hv
    simp only [fillCache]
    split
    · have ha' : a < (h ++ [stack h l]).length := by simp; omega
      have := ih (h := h ++ [stack h l]) (c := insert k (.ref h.length) c) ha' hv.2
      rw [stack_set hv.1, set_append_lt ha, List.length_set, this]
    · rfl

theorem logwStub_set {h : Heap} {d : List (Key × List Val)} {a : Nat} {x : Option Content} (hv : a ∉ histAddrs d) :
    logwStub (h.set a x) d = logwStub h d := by
  unfold logwStub
  split
  · rename_i l _ hl
    have : a ∉ listAddrs l := by
      intro hm
      exact hv (mem_histAddrs.2 ⟨_, l, lookup_mem hl, mem_listAddrs.1 hm⟩)
    exact stack_set this
  · rfl

/-! ### caller-side evaluation of arguments -/

structure ResSpec (h : Heap) (esc : List Addr) (h' : Heap) (esc' : List Addr) : Prop where
  ext : Ext h h'
  mono : ∀ a : Nat, a ∈ esc → a ∈ esc'
  fresh : ∀ a : Nat, a ∈ esc' → a ∈ esc ∨ (h.length ≤ a ∧ a < h'.length)

theorem ResSpec.refl (h : Heap) (esc : List Addr) : ResSpec h esc h esc :=
  ⟨Ext.refl h, fun _ ha => ha, fun _ ha => Or.inl ha⟩

theorem ResSpec.trans {h1 h2 h3 : Heap} {e1 e2 e3 : List Addr} (a : ResSpec h1 e1 h2 e2) (b : ResSpec h2 e2 h3 e3) :
    ResSpec h1 e1 h3 e3 := by
  refine ⟨a.ext.trans b.ext, fun x hx => b.mono x (a.mono x hx), fun x hx => ?_⟩
  have l1 := a.ext.le
  have l2 := b.ext.le
  rcases b.fresh x hx with h | h
  · rcases a.fresh x h with h | h
    · exact Or.inl h
    · exact Or.inr ⟨h.1, by omega⟩
  · exact Or.inr ⟨by omega, h.2⟩

theorem resolveArg_spec (h : Heap) (esc : List Addr) (x : Arg) :
    ResSpec h esc (resolveArg h esc x).1 (resolveArg h esc x).2.1 := by
  cases x with
  | none => exact ResSpec.refl h esc
  | scalar x => exact ResSpec.refl h esc
  | held a => exact ResSpec.refl h esc
  | fresh p =>
    refine ⟨Ext.snoc h _, fun a ha => List.mem_cons_of_mem _ ha, fun a ha => ?_⟩
    simp only [resolveArg, List.mem_cons] at ha
    rcases ha with ha | ha
    · subst ha; exact Or.inr ⟨Nat.le_refl _, by simp [resolveArg]⟩
    · exact Or.inl ha

theorem resolveArg_legal {h : Heap} {esc : List Addr} {x : Arg} (hl : x.legal esc = true) :
    ∀ a ∈ (resolveArg h esc x).2.2.addrs, a ∈ (resolveArg h esc x).2.1 := by
  cases x <;> simp_all [resolveArg, Arg.legal, Val.addrs]

theorem legal_mono {esc esc' : List Addr} {x : Arg} (hm : ∀ a ∈ esc, a ∈ esc') (hl : x.legal esc = true) :
    x.legal esc' = true := by
  cases x <;> simp_all [Arg.legal]

theorem resolveArg_set {h : Heap} {esc : List Addr} {x : Arg} {a : Nat} {c : Option Content} (ha : a < h.length) :
    resolveArg (h.set a c) esc x = ((resolveArg h esc x).1.set a c, (resolveArg h esc x).2) := by
  cases x <;> simp [resolveArg, set_append_lt ha]

theorem resolveList_spec (h : Heap) (esc : List Addr) (l : List Arg) :
    ResSpec h esc (resolveList h esc l).1 (resolveList h esc l).2.1 := by
  induction l generalizing h esc with
  | nil => exact ResSpec.refl h esc
  | cons x xs ih => simp only [resolveList]; exact (resolveArg_spec h esc x).trans (ih _ _)

theorem resolveList_legal {h : Heap} {esc : List Addr} {l : List Arg} (hl : l.all (fun x => x.legal esc) = true) :
    ∀ a ∈ listAddrs (resolveList h esc l).2.2, a ∈ (resolveList h esc l).2.1 := by
  induction l generalizing h esc with
  | nil => simp [resolveList, listAddrs]
  | cons x xs ih =>
    simp only [List.all_cons, Bool.and_eq_true] at hl
    intro a ha
    simp only [resolveList, listAddrs, List.flatMap_cons, List.mem_append] at ha ⊢
    have sp := resolveArg_spec h esc x
    have hl2 : xs.all (fun y => y.legal (resolveArg h esc x).2.1) = true := by
      rw [List.all_eq_true] at hl ⊢
      intro y hy
      exact legal_mono sp.mono (hl.2 y hy)
    rcases ha with ha | ha
    · exact (resolveList_spec _ _ xs).mono a (resolveArg_legal hl.1 a ha)
    · exact ih hl2 a ha

theorem resolveList_set {h : Heap} {esc : List Addr} {l : List Arg} {a : Nat} {c : Option Content} (ha : a < h.length) :
    resolveList (h.set a c) esc l = ((resolveList h esc l).1.set a c, (resolveList h esc l).2) := by
  induction l generalizing h esc with
  | nil => simp [resolveList]
  | cons x xs ih =>
    have ha' : a < (resolveArg h esc x).1.length := Nat.lt_of_lt_of_le ha (resolveArg_spec h esc x).ext.le
    simp only [resolveList, resolveArg_set ha, ih ha']

theorem resolveDict_spec (h : Heap) (esc : List Addr) (l : List (Key × Arg)) :
    ResSpec h esc (resolveDict h esc l).1 (resolveDict h esc l).2.1 := by
  induction l generalizing h esc with
  | nil => exact ResSpec.refl h esc
  | cons kx xs ih => obtain ⟨k, x⟩ := kx; simp only [resolveDict]; exact (resolveArg_spec h esc x).trans (ih _ _)

theorem resolveDict_legal {h : Heap} {esc : List Addr} {l : List (Key × Arg)} (hl : dictLegal esc l = true) :
    ∀ a ∈ dictAddrs (resolveDict h esc l).2.2, a ∈ (resolveDict h esc l).2.1 := by
  induction l generalizing h esc with
  | nil => simp [resolveDict, dictAddrs]
  | cons kx xs ih =>
    obtain ⟨k, x⟩ := kx
    simp only [dictLegal, List.all_cons, Bool.and_eq_true] at hl
    intro a ha
    simp only [resolveDict, dictAddrs, List.flatMap_cons, List.mem_append] at ha ⊢
    have sp := resolveArg_spec h esc x
    have hl2 : dictLegal (resolveArg h esc x).2.1 xs = true := by
      simp only [dictLegal, List.all_eq_true] at hl ⊢
      intro y hy
      exact legal_mono sp.mono (hl.2 y hy)
    rcases ha with ha | ha
    · exact (resolveDict_spec _ _ xs).mono a (resolveArg_legal hl.1 a ha)
    · exact ih hl2 a ha

theorem resolveDict_set {h : Heap} {esc : List Addr} {l : List (Key × Arg)} {a : Nat} {c : Option Content}
    (ha : a < h.length) :
    resolveDict (h.set a c) esc l = ((resolveDict h esc l).1.set a c, (resolveDict h esc l).2) := by
  induction l generalizing h esc with
  | nil => simp [resolveDict]
  | cons kx xs ih =>
    obtain ⟨k, x⟩ := kx
    have ha' : a < (resolveArg h esc x).1.length := Nat.lt_of_lt_of_le ha (resolveArg_spec h esc x).ext.le
    simp only [resolveDict, resolveArg_set ha, ih ha']

theorem resolveHist_spec (h : Heap) (esc : List Addr) (l : List (Key × List Arg)) :
    ResSpec h esc (resolveHist h esc l).1 (resolveHist h esc l).2.1 := by
  induction l generalizing h esc with
  | nil => exact ResSpec.refl h esc
  | cons kx xs ih => obtain ⟨k, x⟩ := kx; simp only [resolveHist]; exact (resolveList_spec h esc x).trans (ih _ _)

theorem resolveHist_set {h : Heap} {esc : List Addr} {l : List (Key × List Arg)} {a : Nat} {c : Option Content}
    (ha : a < h.length) :
    resolveHist (h.set a c) esc l = ((resolveHist h esc l).1.set a c, (resolveHist h esc l).2) := by
  induction l generalizing h esc with
  | nil => simp [resolveHist]
  | cons kx xs ih =>
    obtain ⟨k, x⟩ := kx
    have ha' : a < (resolveList h esc x).1.length := Nat.lt_of_lt_of_le ha (resolveList_spec h esc x).ext.le
    simp only [resolveHist, resolveList_set ha, ih ha']

theorem resolveHist_legal {h : Heap} {esc : List Addr} {l : List (Key × List Arg)} (hl : histLegal esc l = true) :
    ∀ a ∈ histAddrs (resolveHist h esc l).2.2, a ∈ (resolveHist h esc l).2.1 := by
  induction l generalizing h esc with
  | nil => simp [resolveHist, histAddrs]
  | cons kx xs ih =>
    obtain ⟨k, x⟩ := kx
    simp only [histLegal, List.all_cons, Bool.and_eq_true] at hl
    intro a ha
    simp only [resolveHist, histAddrs, List.flatMap_cons, List.mem_append] at ha ⊢
    have sp := resolveList_spec h esc x
    have hl2 : histLegal (resolveList h esc x).2.1 xs = true := by
      simp only [histLegal, List.all_eq_true] at hl ⊢
      intro y hy z hz
      exact legal_mono sp.mono (hl.2 y hy z hz)
    rcases ha with ha | ha
    · exact (resolveHist_spec _ _ xs).mono a (resolveList_legal hl.1 a ha)
    · exact ih hl2 a ha

/-! ### reachable addresses and the no-aliasing invariant -/

def cacheAddrs : Option (List (Key × Val)) → List Addr
  | none => []
  | some c => dictAddrs c

/-- addresses of the arrays that internal state points to (`_current`, `_history`, `_results_dict`) -/
def reach (s : State) : List Addr := dictAddrs s.current ++ histAddrs s.history ++ cacheAddrs s.cache

theorem mem_reach {s : State} {a : Nat} :
    a ∈ reach s ↔ a ∈ dictAddrs s.current ∨ a ∈ histAddrs s.history ∨ a ∈ cacheAddrs s.cache := by
  simp [reach]

/-- every internally reachable array is allocated; everything the caller holds is allocated; an array reachable
    from `_current` is held by the caller only if the caller asked for it to be stored there by reference (`copy=False`);
    an array reachable from `_history` or from the results cache is never held by the caller -/
structure Inv (s : State) : Prop where
  reach_lt : ∀ a : Nat, a ∈ reach s → a < s.heap.length
  esc_lt : ∀ a : Nat, a ∈ s.escaped → a < s.heap.length
  sep : ∀ a : Nat, a ∈ dictAddrs s.current → a ∈ s.escaped → a ∈ s.imported
  sepH : ∀ a : Nat, a ∈ histAddrs s.history ∨ a ∈ cacheAddrs s.cache → a ∉ s.escaped

theorem Inv.of_step {s s' : State} (hI : Inv s) (hext : Ext s.heap s'.heap)
    (hesc : ∀ a : Nat, a ∈ s'.escaped → a ∈ s.escaped ∨ (s.heap.length ≤ a ∧ a < s'.heap.length))
    (himp : ∀ a : Nat, a ∈ s.imported → a ∈ s'.imported)
    (hcur : ∀ a : Nat, a ∈ dictAddrs s'.current →
      a ∈ dictAddrs s.current ∨ (a < s'.heap.length ∧ (a ∈ s'.escaped → a ∈ s'.imported)))
    (hhc : ∀ a : Nat, a ∈ histAddrs s'.history ∨ a ∈ cacheAddrs s'.cache →
      (a ∈ histAddrs s.history ∨ a ∈ cacheAddrs s.cache) ∨ (a < s'.heap.length ∧ a ∉ s'.escaped)) : Inv s' := by
  have hle := hext.le
  refine ⟨fun a ha => ?_, fun a ha => ?_, fun a ha he => ?_, fun a ha he => ?_⟩
  · rw [mem_reach] at ha
    rcases ha with ha | ha
    · rcases hcur a ha with h | h
      · have := hI.reach_lt a (mem_reach.2 (Or.inl h)); omega
      · exact h.1
    · rcases hhc a ha with h | h
      · have := hI.reach_lt a (mem_reach.2 (Or.inr h)); omega
      · exact h.1
  · rcases hesc a ha with h | h
    · have := hI.esc_lt a h; omega
    · exact h.2
  · rcases hcur a ha with h | h
    · have h1 := hI.reach_lt a (mem_reach.2 (Or.inl h))
      rcases hesc a he with h2 | h2
      · exact himp a (hI.sep a h h2)
      · omega
    · exact h.2 he
  · rcases hhc a ha with h | h
    · have h1 := hI.reach_lt a (mem_reach.2 (Or.inr h))
      rcases hesc a he with h2 | h2
      · exact hI.sepH a h h2
      · omega
    · exact h.2 he

theorem inv_resolve {s : State} {h' : Heap} {e' : List Addr} (hI : Inv s) (sp : ResSpec s.heap s.escaped h' e') :
    Inv { s with heap := h', escaped := e' } :=
  hI.of_step sp.ext sp.fresh (fun _ h => h) (fun _ h => Or.inl h) (fun _ h => Or.inl h)

theorem inv_escape {s : State} {h' : Heap} {new : List Addr} (hI : Inv s) (hext : Ext s.heap h')
    (hnew : ∀ a : Nat, a ∈ new → s.heap.length ≤ a ∧ a < h'.length) :
    Inv { s with heap := h', escaped := new ++ s.escaped } := by
  refine hI.of_step hext (fun a ha => ?_) (fun _ h => h) (fun _ h => Or.inl h) (fun _ h => Or.inl h)
  simp only [List.mem_append] at ha
  rcases ha with ha | ha
  · exact Or.inr (hnew a ha)
  · exact Or.inl ha

theorem inv_cache_none {s : State} (hI : Inv s) : Inv { s with cache := none } := by
  refine hI.of_step (Ext.refl _) (fun _ h => Or.inl h) (fun _ h => h) (fun _ h => Or.inl h)
    (fun a ha => Or.inl ?_)
  simp only [cacheAddrs, List.not_mem_nil, or_false] at ha
  exact Or.inl ha

theorem storeCurrent_escaped (s : State) (k : Key) (v : Val) (copy : Bool) :
    (storeCurrent s k v copy).escaped = s.escaped := by
  unfold storeCurrent; split <;> rfl

theorem storeCurrent_ext (s : State) (k : Key) (v : Val) (copy : Bool) :
    Ext s.heap (storeCurrent s k v copy).heap := by
  unfold storeCurrent; split
  · exact copyVal_ext _ _
  · exact Ext.refl _

theorem inv_storeCurrent {s : State} {k : Key} {v : Val} {copy : Bool} (hI : Inv s)
    (hv : ∀ a : Nat, a ∈ v.addrs → a ∈ s.escaped) : Inv (storeCurrent s k v copy) := by
  unfold storeCurrent
  split
  · refine hI.of_step (copyVal_ext _ _) (fun _ h => Or.inl h) (fun _ h => h) (fun a ha => ?_)
      (fun _ h => Or.inl h)
    rcases dictAddrs_insert ha with h1 | h1
    · exact Or.inl h1
    · have hf := copyVal_fresh h1
      refine Or.inr ⟨hf.2, fun he => ?_⟩
      have := hI.esc_lt a he
      omega
  · refine hI.of_step (Ext.refl _) (fun _ h => Or.inl h) (fun a h => List.mem_append_right _ h)
      (fun a ha => ?_) (fun _ h => Or.inl h)
    rcases dictAddrs_insert ha with h1 | h1
    · exact Or.inl h1
    · exact Or.inr ⟨hI.esc_lt a (hv a h1), fun _ => List.mem_append_left _ h1⟩

theorem updLoop_escaped (copy : Bool) (kvs : List (Key × Val)) (s : State) :
    (updLoop copy kvs s).1.escaped = s.escaped := by
  induction kvs generalizing s with
  | nil => rfl
  | cons kv r ih =>
    obtain ⟨k, v⟩ := kv
    simp only [updLoop]
    split
    · rw [ih, storeCurrent_escaped]
    · rfl

theorem inv_updLoop {copy : Bool} {kvs : List (Key × Val)} {s : State} (hI : Inv s)
    (hv : ∀ a : Nat, a ∈ dictAddrs kvs → a ∈ s.escaped) : Inv (updLoop copy kvs s).1 := by
  induction kvs generalizing s with
  | nil => exact hI
  | cons kv r ih =>
    obtain ⟨k, v⟩ := kv
    simp only [dictAddrs, List.flatMap_cons, List.mem_append] at hv
    simp only [updLoop]
    split
    · apply ih (inv_storeCurrent hI (fun a ha => hv a (Or.inl ha)))
      intro a ha
      rw [storeCurrent_escaped]
      exact hv a (Or.inr ha)
    · exact hI

theorem commitLoop_frame (ks : List Key) (s : State) :
    (commitLoop ks s).current = s.current ∧ (commitLoop ks s).cache = s.cache ∧
    (commitLoop ks s).escaped = s.escaped ∧ (commitLoop ks s).imported = s.imported ∧
    Ext s.heap (commitLoop ks s).heap := by
  induction ks generalizing s with
  | nil => exact ⟨rfl, rfl, rfl, rfl, Ext.refl _⟩
  | cons k ks ih =>
    simp only [commitLoop]
    split
    · split
      · exact ih s
      · rename_i v _ _
        obtain ⟨h1, h2, h3, h4, h5⟩ :=
          ih { s with heap := (copyVal s.heap v).1, history := adjust k (fun l => l ++ [(copyVal s.heap v).2]) s.history }
        exact ⟨h1, h2, h3, h4, (copyVal_ext _ _).trans h5⟩
    · exact ih s

theorem inv_commitLoop {ks : List Key} {s : State} (hI : Inv s) : Inv (commitLoop ks s) := by
  induction ks generalizing s with
  | nil => exact hI
  | cons k ks ih =>
    simp only [commitLoop]
    split
    · split
      · exact ih hI
      · apply ih
        refine hI.of_step (copyVal_ext _ _) (fun _ h => Or.inl h) (fun _ h => h) (fun _ h => Or.inl h)
          (fun a ha => ?_)
        rcases ha with ha | ha
        · rcases histAddrs_adjust_snoc ha with h1 | h1
          · exact Or.inl (Or.inl h1)
          · have hf := copyVal_fresh h1
            refine Or.inr ⟨hf.2, fun he => ?_⟩
            have := hI.esc_lt a he
            omega
        · exact Or.inl (Or.inr ha)
    · exact ih hI

theorem inv_of_heap_length {s : State} {h' : Heap} (hI : Inv s) (hl : h'.length = s.heap.length) :
    Inv { s with heap := h' } :=
  ⟨fun a ha => by have := hI.reach_lt a ha; simp only; omega,
   fun a ha => by have := hI.esc_lt a ha; simp only; omega,
   fun a ha he => hI.sep a ha he, fun a ha he => hI.sepH a ha he⟩

theorem step_inv (s : State) (o : Op) (hI : Inv s) : Inv (step s o).1 := by
  cases o with
  | setCurrent k x copy =>
    simp only [step]
    split
    · exact hI
    · rename_i hl
      replace hl := by simpa using hl
      have sp := resolveArg_spec s.heap s.escaped x
      have h1 := inv_resolve hI sp
      split
      · exact h1
      · exact inv_cache_none (inv_storeCurrent h1 (resolveArg_legal hl))
  | updateCurrent kvs copy =>
    simp only [step]
    split
    · exact hI
    · rename_i hl
      replace hl := by simpa using hl
      have sp := resolveDict_spec s.heap s.escaped kvs
      have h1 := inv_resolve hI sp
      have h2 := inv_updLoop (copy := copy) h1 (resolveDict_legal hl)
      split
      · exact inv_cache_none h2
      · exact h2
  | getCurrent k =>
    cases k with
    | some k =>
      simp only [step]
      split
      · exact hI
      · split
        · exact hI
        · exact inv_escape hI (copyVal_ext _ _) (fun a ha => copyVal_fresh ha)
    | none =>
      simp only [step]
      exact inv_escape hI (copyDict_ext _ _) (fun a ha => copyDict_fresh ha)
  | getHistory k index flat =>
    simp only [step]
    split
    · exact hI
    · split
      · exact hI
      · split
        · split
          · exact hI
          · exact inv_escape (new := [s.heap.length]) hI (Ext.snoc _ _) (fun a ha => by simp at ha; subst ha; simp)
        · split
          · exact hI
          · split
            · exact hI
            · exact inv_escape hI (copyVal_ext _ _) (fun a ha => copyVal_fresh ha)
  | getLastHistory k =>
    simp only [step]
    split
    · exact hI
    · split
      · exact hI
      · split
        · exact hI
        · exact inv_escape hI (copyVal_ext _ _) (fun a ha => copyVal_fresh ha)
  | commit strict =>
    simp only [step]
    split
    · exact hI
    · exact inv_cache_none (inv_commitLoop hI)
  | computeResults =>
    simp only [step]
    split
    · rename_i c hc
      exact inv_escape hI (copyDict_ext _ _) (fun a ha => copyDict_fresh ha)
    · rename_i hc
      have hfe := fillCache_ext s.history s.heap []
      split
      · refine hI.of_step hfe (fun _ h => Or.inl h) (fun _ h => h) (fun _ h => Or.inl h) (fun a ha => ?_)
        rcases ha with ha | ha
        · exact Or.inl (Or.inl ha)
        · simp only [cacheAddrs] at ha
          rcases fillCache_fresh ha with h1 | h1
          · simp [dictAddrs] at h1
          · refine Or.inr ⟨h1.2, fun he => ?_⟩
            have := hI.esc_lt a he
            omega
      · -- cache filled, then copies handed out
        have h1 : Inv { s with heap := (fillCache s.history s.heap []).1 ++ [logwStub (fillCache s.history s.heap []).1 s.history],
                               cache := some (insert "logw" (.ref (fillCache s.history s.heap []).1.length) (fillCache s.history s.heap []).2.1) } := by
          refine hI.of_step (hfe.trans (Ext.snoc _ _)) (fun _ h => Or.inl h) (fun _ h => h)
            (fun _ h => Or.inl h) (fun a ha => ?_)
          rcases ha with ha | ha
          · exact Or.inl (Or.inl ha)
          · simp only [cacheAddrs] at ha
            have hle := hfe.le
            rcases dictAddrs_insert ha with h2 | h2
            · rcases fillCache_fresh h2 with h1 | h1
              · simp [dictAddrs] at h1
              · refine Or.inr ⟨by simp; omega, fun he => ?_⟩
                have := hI.esc_lt a he
                omega
            · simp only [Val.addrs, List.mem_singleton] at h2
              refine Or.inr ⟨by simp; omega, fun he => ?_⟩
              have := hI.esc_lt a he
              omega
        exact inv_escape h1 (copyDict_ext _ _) (fun a ha => copyDict_fresh ha)
  | logw beta =>
    simp only [step]
    exact inv_escape (new := [s.heap.length]) hI (Ext.snoc _ _) (fun a ha => by simp at ha; subst ha; simp)
  | toDict =>
    simp only [step]
    have e1 := copyDict_ext s.heap s.current
    have e2 := copyHist_ext (copyDict s.heap s.current).1 s.history
    have := inv_escape (new := dictAddrs (copyDict s.heap s.current).2 ++ histAddrs (copyHist (copyDict s.heap s.current).1 s.history).2)
      hI (e1.trans e2) (fun a ha => by
        simp only [List.mem_append] at ha
        have l1 := e1.le
        have l2 := e2.le
        rcases ha with ha | ha
        · have := copyDict_fresh ha; omega
        · have := copyHist_fresh ha; omega)
    simpa [List.append_assoc] using this
  | updateFromDict cur hist =>
    simp only [step]
    split
    · exact hI
    · have sp1 := resolveDict_spec s.heap s.escaped (entries cur)
      have sp2 := resolveHist_spec (resolveDict s.heap s.escaped (entries cur)).1 (resolveDict s.heap s.escaped (entries cur)).2.1 (entries hist)
      have h1 := inv_resolve hI (sp1.trans sp2)
      have e1 := copyDict_ext (resolveHist (resolveDict s.heap s.escaped (entries cur)).1 (resolveDict s.heap s.escaped (entries cur)).2.1 (entries hist)).1
        (resolveDict s.heap s.escaped (entries cur)).2.2
      have e2 := copyHist_ext (copyDict (resolveHist (resolveDict s.heap s.escaped (entries cur)).1 (resolveDict s.heap s.escaped (entries cur)).2.1 (entries hist)).1
        (resolveDict s.heap s.escaped (entries cur)).2.2).1
        (resolveHist (resolveDict s.heap s.escaped (entries cur)).1 (resolveDict s.heap s.escaped (entries cur)).2.1 (entries hist)).2.2
      have l1 := e1.le
      have l2 := e2.le
      refine h1.of_step (e1.trans e2) (fun _ h => Or.inl h) (fun _ h => h) (fun a ha => ?_) (fun a ha => ?_)
      · rcases dictAddrs_updateAll ha with h2 | h2
        · exact Or.inl h2
        · have hf := copyDict_fresh h2
          refine Or.inr ⟨by simp only; omega, fun he => ?_⟩
          have := h1.esc_lt a he
          simp only at this
          omega
      · simp only [cacheAddrs, List.not_mem_nil, or_false] at ha
        rcases histAddrs_updateAll ha with h2 | h2
        · exact Or.inl (Or.inl h2)
        · have hf := copyHist_fresh h2
          refine Or.inr ⟨hf.2, fun he => ?_⟩
          have := h1.esc_lt a he
          simp only at this
          omega
  | scribble a p =>
    simp only [step]
    split
    · exact inv_of_heap_length hI (by simp)
    · exact hI

theorem reach_init : reach init = [] := by decide

theorem init_inv : Inv init := by
  have h0 : ∀ a : Nat, a ∈ dictAddrs init.current ∨ a ∈ histAddrs init.history ∨ a ∈ cacheAddrs init.cache → False := by
    intro a ha
    have := mem_reach.2 ha
    rw [reach_init] at this
    cases this
  refine ⟨fun a ha => ?_, fun a ha => ?_, fun a ha => ?_, fun a ha => ?_⟩
  · rw [reach_init] at ha; cases ha
  · cases ha
  · exact (h0 a (Or.inl ha)).elim
  · exact (h0 a (Or.inr ha)).elim

theorem run_inv (ops : List Op) (s : State) (hI : Inv s) : Inv (run s ops) := by
  induction ops generalizing s with
  | nil => exact hI
  | cons o os ih => exact ih _ (step_inv s o hI)

/-! ### an in-place write at an address that internal state does not reach commutes with every operation -/

/-- the caller overwrites cell `a` -/
def poke (s : State) (a : Nat) (c : Option Content) : State := { s with heap := s.heap.set a c }

def Arg.heldAddrs : Arg → List Addr
  | .held a => [a]
  | _ => []

/-- addresses of previously obtained arrays that an operation passes back in -/
def Op.heldAddrs : Op → List Addr
  | .setCurrent _ x _ => x.heldAddrs
  | .updateCurrent kvs _ => kvs.flatMap (fun kv => kv.2.heldAddrs)
  | .updateFromDict cur hist =>
    (entries cur).flatMap (fun kv => kv.2.heldAddrs) ++
    (entries hist).flatMap (fun kv => kv.2.flatMap Arg.heldAddrs)
  | _ => []

def Op.isScribble : Op → Bool
  | .scribble _ _ => true
  | _ => false

theorem resolveArg_addrs {h : Heap} {esc : List Addr} {x : Arg} {b : Nat} (hb : b ∈ (resolveArg h esc x).2.2.addrs) :
    b ∈ x.heldAddrs ∨ h.length ≤ b := by
  cases x <;> simp_all [resolveArg, Val.addrs, Arg.heldAddrs]

theorem resolveDict_addrs {h : Heap} {esc : List Addr} {l : List (Key × Arg)} {b : Nat}
    (hb : b ∈ dictAddrs (resolveDict h esc l).2.2) : b ∈ l.flatMap (fun kv => kv.2.heldAddrs) ∨ h.length ≤ b := by
  induction l generalizing h esc with
  | nil => simp [resolveDict, dictAddrs] at hb
  | cons kx xs ih =>
    obtain ⟨k, x⟩ := kx
    simp only [resolveDict, dictAddrs, List.flatMap_cons, List.mem_append] at hb ⊢
    rcases hb with hb | hb
    · rcases resolveArg_addrs hb with h1 | h1
      · exact Or.inl (Or.inl h1)
      · exact Or.inr h1
    · have hle := (resolveArg_spec h esc x).ext.le
      rcases ih hb with h1 | h1
      · exact Or.inl (Or.inr h1)
      · exact Or.inr (by omega)

theorem resolveList_addrs {h : Heap} {esc : List Addr} {l : List Arg} {b : Nat}
    (hb : b ∈ listAddrs (resolveList h esc l).2.2) : b ∈ l.flatMap Arg.heldAddrs ∨ h.length ≤ b := by
  induction l generalizing h esc with
  | nil => simp [resolveList, listAddrs] at hb
  | cons x xs ih =>
    simp only [resolveList, listAddrs, List.flatMap_cons, List.mem_append] at hb ⊢
    rcases hb with hb | hb
    · rcases resolveArg_addrs hb with h1 | h1
      · exact Or.inl (Or.inl h1)
      · exact Or.inr h1
    · have hle := (resolveArg_spec h esc x).ext.le
      rcases ih hb with h1 | h1
      · exact Or.inl (Or.inr h1)
      · exact Or.inr (by omega)

theorem resolveHist_addrs {h : Heap} {esc : List Addr} {l : List (Key × List Arg)} {b : Nat}
    (hb : b ∈ histAddrs (resolveHist h esc l).2.2) :
    b ∈ l.flatMap (fun kv => kv.2.flatMap Arg.heldAddrs) ∨ h.length ≤ b := by
  induction l generalizing h esc with
  | nil => simp [resolveHist, histAddrs] at hb
  | cons kx xs ih =>
    obtain ⟨k, x⟩ := kx
    simp only [resolveHist, histAddrs, List.flatMap_cons, List.mem_append] at hb ⊢
    rcases hb with hb | hb
    · rcases resolveList_addrs hb with h1 | h1
      · exact Or.inl (Or.inl h1)
      · exact Or.inr h1
    · have hle := (resolveList_spec h esc x).ext.le
      rcases ih hb with h1 | h1
      · exact Or.inl (Or.inr h1)
      · exact Or.inr (by omega)

theorem storeCurrent_poke {s : State} {k : Key} {v : Val} {copy : Bool} {a : Nat} {c : Option Content}
    (ha : a < s.heap.length) (hv : a ∉ v.addrs) :
    storeCurrent (poke s a c) k v copy = poke (storeCurrent s k v copy) a c := by
  unfold storeCurrent poke
  cases copy <;> simp [copyVal_set ha hv]

theorem updLoop_poke {copy : Bool} {kvs : List (Key × Val)} {s : State} {a : Nat} {c : Option Content}
    (ha : a < s.heap.length) (hv : a ∉ dictAddrs kvs) :
    updLoop copy kvs (poke s a c) = (poke (updLoop copy kvs s).1 a c, (updLoop copy kvs s).2) := by
  induction kvs generalizing s with
  | nil => rfl
  | cons kv r ih =>
    obtain ⟨k, v⟩ := kv
    simp only [dictAddrs, List.flatMap_cons, List.mem_append, not_or] at hv
    simp only [updLoop]
    split
    · rw [storeCurrent_poke ha hv.1]
      exact ih (Nat.lt_of_lt_of_le ha (storeCurrent_ext s k v copy).le) hv.2
    · rfl

theorem commitLoop_poke {ks : List Key} {s : State} {a : Nat} {c : Option Content}
    (ha : a < s.heap.length) (hv : a ∉ dictAddrs s.current) :
    commitLoop ks (poke s a c) = poke (commitLoop ks s) a c := by
  induction ks generalizing s with
  | nil => rfl
  | cons k ks ih =>
    simp only [commitLoop]
    have hcur : (poke s a c).current = s.current := rfl
    rw [hcur]
    split
    · rename_i v hl
      have hva : a ∉ v.addrs := fun hm => hv (mem_dictAddrs.2 ⟨k, by rw [← mem_addrs_ref.1 hm]; exact lookup_mem hl⟩)
      split
      · exact ih ha hv
      · have := ih (s := { s with heap := (copyVal s.heap v).1,
                                   history := adjust k (fun l => l ++ [(copyVal s.heap v).2]) s.history })
            (Nat.lt_of_lt_of_le ha (copyVal_ext s.heap v).le) hv
        rw [← this]
        simp [poke, copyVal_set ha hva]
    · exact ih ha hv

theorem not_mem_reach {s : State} {a : Nat} (h : a ∉ reach s) :
    a ∉ dictAddrs s.current ∧ a ∉ histAddrs s.history ∧ a ∉ cacheAddrs s.cache := by
  rw [mem_reach] at h
  exact ⟨fun x => h (Or.inl x), fun x => h (Or.inr (Or.inl x)), fun x => h (Or.inr (Or.inr x))⟩

theorem lookup_not_addr {d : List (Key × Val)} {k : Key} {v : Val} {a : Nat} (hl : lookup k d = some v)
    (hd : a ∉ dictAddrs d) : a ∉ v.addrs :=
  fun hm => hd (mem_dictAddrs.2 ⟨k, by rw [← mem_addrs_ref.1 hm]; exact lookup_mem hl⟩)

theorem lookup_not_listAddr {d : List (Key × List Val)} {k : Key} {l : List Val} {a : Nat} (hl : lookup k d = some l)
    (hd : a ∉ histAddrs d) : a ∉ listAddrs l :=
  fun hm => hd (mem_histAddrs.2 ⟨k, l, lookup_mem hl, mem_listAddrs.1 hm⟩)

/-- `compute_results()` reads only history entries and the cache -/
theorem computeResults_poke {s : State} {a : Nat} {c : Option Content} (ha : a < s.heap.length)
    (hhist : a ∉ histAddrs s.history) (hcache : a ∉ cacheAddrs s.cache) :
    step (poke s a c) .computeResults = (poke (step s .computeResults).1 a c, (step s .computeResults).2) := by
    cases hc : s.cache with
  | some cd =>
    have hcd : a ∉ dictAddrs cd := by simpa [hc, cacheAddrs] using hcache
    simp [step, poke, hc, copyDict_set ha hcd]
  | none =>
    have hfe := (fillCache_ext s.history s.heap []).le
    have hf := fillCache_set (c := ([] : List (Key × Val))) (x := c) ha hhist
    have ha1 : a < (fillCache s.history s.heap []).1.length := by omega
    have hcd : a ∉ dictAddrs (insert "logw" (.ref (fillCache s.history s.heap []).1.length) (fillCache s.history s.heap []).2.1) := by
      intro hm
      rcases dictAddrs_insert hm with h2 | h2
      · rcases fillCache_fresh h2 with h3 | h3
        · simp [dictAddrs] at h3
        · omega
      · simp only [Val.addrs, List.mem_singleton] at h2
        omega
    have ha2 : a < ((fillCache s.history s.heap []).1 ++ [logwStub (fillCache s.history s.heap []).1 s.history]).length := by
      simp; omega
    cases hok : (fillCache s.history s.heap []).2.2 <;>
      simp [step, poke, hc, hf, logwStub_set hhist, set_append_lt ha1, copyDict_set ha2 hcd, hok]

theorem step_poke {s : State} {o : Op} {a : Nat} {c : Option Content} (ha : a < s.heap.length)
    (hr : a ∉ reach s) (hh : a ∉ o.heldAddrs) (hs : o.isScribble = false) :
    step (poke s a c) o = (poke (step s o).1 a c, (step s o).2) := by
  obtain ⟨hcur, hhist, hcache⟩ := not_mem_reach hr
  cases o with
  | setCurrent k x copy =>
    simp only [Op.heldAddrs] at hh
    have hv : a ∉ (resolveArg s.heap s.escaped x).2.2.addrs := by
      intro hm
      rcases resolveArg_addrs hm with h1 | h1
      · exact hh h1
      · omega
    have ha' : a < (resolveArg s.heap s.escaped x).1.length :=
      Nat.lt_of_lt_of_le ha (resolveArg_spec s.heap s.escaped x).ext.le
    by_cases h1 : x.legal s.escaped = true <;> by_cases h2 : k ∈ currentKeys
    · have := storeCurrent_poke (s := { s with heap := (resolveArg s.heap s.escaped x).1, escaped := (resolveArg s.heap s.escaped x).2.1 })
        (k := k) (copy := copy) (c := c) ha' hv
      simp only [poke] at this
      simp [step, poke, h1, h2, resolveArg_set ha, this]
    · simp [step, poke, h1, h2, resolveArg_set ha]
    · simp [step, poke, h1]
    · simp [step, poke, h1]
  | updateCurrent kvs copy =>
    simp only [Op.heldAddrs] at hh
    have hv : a ∉ dictAddrs (resolveDict s.heap s.escaped kvs).2.2 := by
      intro hm
      rcases resolveDict_addrs hm with h1 | h1
      · exact hh h1
      · omega
    have ha' : a < (resolveDict s.heap s.escaped kvs).1.length :=
      Nat.lt_of_lt_of_le ha (resolveDict_spec s.heap s.escaped kvs).ext.le
    by_cases h1 : dictLegal s.escaped kvs = true
    · have := updLoop_poke (s := { s with heap := (resolveDict s.heap s.escaped kvs).1, escaped := (resolveDict s.heap s.escaped kvs).2.1 })
        (copy := copy) (c := c) ha' hv
      simp only [poke] at this
      cases hu : (updLoop copy (resolveDict s.heap s.escaped kvs).2.2
          { s with heap := (resolveDict s.heap s.escaped kvs).1, escaped := (resolveDict s.heap s.escaped kvs).2.1 }).2 <;>
        simp [step, poke, h1, resolveDict_set ha, this, hu]
    · simp [step, poke, h1]
  | getCurrent k =>
    cases k with
    | some k =>
      by_cases h1 : k ∈ currentKeys
      · cases hl : lookup k s.current with
        | none => simp [step, poke, h1, hl]
        | some v => simp [step, poke, h1, hl, copyVal_set ha (lookup_not_addr hl hcur)]
      · simp [step, poke, h1]
    | none => simp [step, poke, copyDict_set ha hcur]
  | getHistory k index flat =>
    by_cases h1 : k ∈ historyKeys
    · cases hl : lookup k s.history with
      | none => simp [step, poke, h1, hl]
      | some l =>
        have hla := lookup_not_listAddr hl hhist
        cases index with
        | none =>
          by_cases hc : flat = true ∧ (l = [] ∨ ∃ x, x ∈ l ∧ x.isRef = false) <;>
            simp [step, poke, h1, hl, stack_set hla, set_append_lt ha, hc]
        | some i =>
          by_cases h2 : i < 0
          · simp [step, poke, h1, hl, h2]
          · cases hi : l[i.toNat]? with
            | none => simp [step, poke, h1, hl, h2, hi]
            | some v =>
              have hva : a ∉ v.addrs := fun hm =>
                hla (mem_listAddrs.2 (by rw [← mem_addrs_ref.1 hm]; exact List.mem_of_getElem? hi))
              simp [step, poke, h1, hl, h2, hi, copyVal_set ha hva]
    · simp [step, poke, h1]
  | getLastHistory k =>
    by_cases h1 : k ∈ historyKeys
    · cases hl : lookup k s.history with
      | none => simp [step, poke, h1, hl]
      | some l =>
        have hla := lookup_not_listAddr hl hhist
        cases hg : l.getLast? with
        | none => simp [step, poke, h1, hl, hg]
        | some v =>
          have hva : a ∉ v.addrs := fun hm =>
            hla (mem_listAddrs.2 (by rw [← mem_addrs_ref.1 hm]; exact List.mem_of_getLast? hg))
          simp [step, poke, h1, hl, hg, copyVal_set ha hva]
    · simp [step, poke, h1]
  | commit strict =>
    have := commitLoop_poke (ks := commitKeys) (c := c) ha hcur
    simp only [poke] at this
    cases hcnd : (strict && (isNone (lookup "beta" s.current) || isNone (lookup "logl" s.current))) <;>
      simp [step, poke, this, hcnd]
  | computeResults => exact computeResults_poke ha hhist hcache
  | logw beta => simp [step, poke, logwStub_set hhist, set_append_lt ha]
  | toDict =>
    have ha1 : a < (copyDict s.heap s.current).1.length := Nat.lt_of_lt_of_le ha (copyDict_ext _ _).le
    simp [step, poke, copyDict_set ha hcur, copyHist_set ha1 hhist]
  | updateFromDict cur hist =>
    simp only [Op.heldAddrs, List.mem_append, not_or] at hh
    have l1 := (resolveDict_spec s.heap s.escaped (entries cur)).ext.le
    have l2 := (resolveHist_spec (resolveDict s.heap s.escaped (entries cur)).1
      (resolveDict s.heap s.escaped (entries cur)).2.1 (entries hist)).ext.le
    have ha1 : a < (resolveDict s.heap s.escaped (entries cur)).1.length := by omega
    have ha2 : a < (resolveHist (resolveDict s.heap s.escaped (entries cur)).1
      (resolveDict s.heap s.escaped (entries cur)).2.1 (entries hist)).1.length := by omega
    have hv1 : a ∉ dictAddrs (resolveDict s.heap s.escaped (entries cur)).2.2 := by
      intro hm
      rcases resolveDict_addrs hm with h1 | h1
      · exact hh.1 h1
      · omega
    have hv2 : a ∉ histAddrs (resolveHist (resolveDict s.heap s.escaped (entries cur)).1
        (resolveDict s.heap s.escaped (entries cur)).2.1 (entries hist)).2.2 := by
      intro hm
      rcases resolveHist_addrs hm with h1 | h1
      · exact hh.2 h1
      · omega
    have ha3 : a < (copyDict (resolveHist (resolveDict s.heap s.escaped (entries cur)).1
        (resolveDict s.heap s.escaped (entries cur)).2.1 (entries hist)).1
        (resolveDict s.heap s.escaped (entries cur)).2.2).1.length :=
      Nat.lt_of_lt_of_le ha2 (copyDict_ext _ _).le
    cases hlg : (dictLegal s.escaped (entries cur) && histLegal s.escaped (entries hist)) <;>
      simp [step, poke, resolveDict_set ha, resolveHist_set ha1, copyDict_set ha2 hv1, copyHist_set ha3 hv2, hlg]
  | scribble b p => simp [Op.isScribble] at hs

/-! ### payload reads under in-place writes and under allocation -/

theorem deref_set {h : Heap} {v : Val} {a : Nat} {c : Option Content} (hv : a ∉ v.addrs) :
    deref (h.set a c) v = deref h v := by
  cases v with
  | none => rfl
  | scalar x => rfl
  | ref b =>
    have hne : a ≠ b := by simpa [Val.addrs] using hv
    simp [deref, rd_set_ne hne]

theorem derefList_set {h : Heap} {l : List Val} {a : Nat} {c : Option Content} (hv : a ∉ listAddrs l) :
    l.map (deref (h.set a c)) = l.map (deref h) := by
  apply List.map_congr_left
  intro v hm
  exact deref_set (fun hx => hv (mem_listAddrs.2 (by rw [← mem_addrs_ref.1 hx]; exact hm)))

theorem derefDict_set {h : Heap} {d : List (Key × Val)} {a : Nat} {c : Option Content} (hv : a ∉ dictAddrs d) :
    derefDict (h.set a c) d = derefDict h d := by
  apply List.map_congr_left
  intro kv hm
  have : a ∉ kv.2.addrs := fun hx => hv (mem_dictAddrs.2 ⟨kv.1, by rw [← mem_addrs_ref.1 hx]; exact hm⟩)
  simp [deref_set this]

theorem derefHist_set {h : Heap} {d : List (Key × List Val)} {a : Nat} {c : Option Content} (hv : a ∉ histAddrs d) :
    derefHist (h.set a c) d = derefHist h d := by
  apply List.map_congr_left
  intro kv hm
  have : a ∉ listAddrs kv.2 := fun hx => hv (mem_histAddrs.2 ⟨kv.1, kv.2, hm, mem_listAddrs.1 hx⟩)
  simp [derefList_set this]

theorem derefRes_set {h : Heap} {r : Res} {a : Nat} {c : Option Content} (hv : a ∉ r.addrs) :
    derefRes (h.set a c) r = derefRes h r := by
  cases r with
  | unit => rfl
  | err e => rfl
  | val v => simp only [Res.addrs] at hv; simp [derefRes, deref_set hv]
  | dict d => simp only [Res.addrs] at hv; simp [derefRes, derefDict_set hv]
  | «export» cu hi =>
    simp only [Res.addrs, List.mem_append, not_or] at hv
    simp [derefRes, derefDict_set hv.1, derefHist_set hv.2]

theorem deref_ext {h h' : Heap} {v : Val} (e : Ext h h') (hv : ∀ b : Nat, b ∈ v.addrs → b < h.length) :
    deref h' v = deref h v := by
  cases v with
  | none => rfl
  | scalar x => rfl
  | ref b => simp [deref, e.rd (hv b (by simp [Val.addrs]))]

theorem derefList_ext {h h' : Heap} {l : List Val} (e : Ext h h') (hv : ∀ b : Nat, b ∈ listAddrs l → b < h.length) :
    l.map (deref h') = l.map (deref h) := by
  apply List.map_congr_left
  intro v hm
  exact deref_ext e (fun b hb => hv b (mem_listAddrs.2 (by rw [← mem_addrs_ref.1 hb]; exact hm)))

/-! ### frame facts of `step` -/

theorem updLoop_ext (copy : Bool) (kvs : List (Key × Val)) (s : State) : Ext s.heap (updLoop copy kvs s).1.heap := by
  induction kvs generalizing s with
  | nil => exact Ext.refl _
  | cons kv r ih =>
    obtain ⟨k, v⟩ := kv
    simp only [updLoop]
    split
    · exact (storeCurrent_ext s k v copy).trans (ih _)
    · exact Ext.refl _

theorem step_ext (s : State) (o : Op) (hs : o.isScribble = false) : Ext s.heap (step s o).1.heap := by
  cases o with
  | setCurrent k x copy =>
    simp only [step]
    have e1 := (resolveArg_spec s.heap s.escaped x).ext
    split
    · exact Ext.refl _
    · split
      · exact e1
      · exact e1.trans (storeCurrent_ext _ _ _ _)
  | updateCurrent kvs copy =>
    simp only [step]
    have e1 := (resolveDict_spec s.heap s.escaped kvs).ext
    split
    · exact Ext.refl _
    · have e2 := updLoop_ext copy (resolveDict s.heap s.escaped kvs).2.2
        { s with heap := (resolveDict s.heap s.escaped kvs).1, escaped := (resolveDict s.heap s.escaped kvs).2.1 }
      split
      · exact e1.trans e2
      · exact e1.trans e2
  | getCurrent k =>
    cases k with
    | some k =>
      simp only [step]
      split
      · exact Ext.refl _
      · split
        · exact Ext.refl _
        · exact copyVal_ext _ _
    | none => exact copyDict_ext _ _
  | getHistory k index flat =>
    simp only [step]
    split
    · exact Ext.refl _
    · split
      · exact Ext.refl _
      · split
        · split
          · exact Ext.refl _
          · exact Ext.snoc _ _
        · split
          · exact Ext.refl _
          · split
            · exact Ext.refl _
            · exact copyVal_ext _ _
  | getLastHistory k =>
    simp only [step]
    split
    · exact Ext.refl _
    · split
      · exact Ext.refl _
      · split
        · exact Ext.refl _
        · exact copyVal_ext _ _
  | commit strict =>
    simp only [step]
    split
    · exact Ext.refl _
    · exact (commitLoop_frame commitKeys s).2.2.2.2
  | computeResults =>
    simp only [step]
    split
    · exact copyDict_ext _ _
    · have hfe := fillCache_ext s.history s.heap []
      split
      · exact hfe
      · exact (hfe.trans (Ext.snoc _ _)).trans (copyDict_ext _ _)
  | logw beta => exact Ext.snoc _ _
  | toDict => exact (copyDict_ext _ _).trans (copyHist_ext _ _)
  | updateFromDict cur hist =>
    simp only [step]
    split
    · exact Ext.refl _
    · exact (((resolveDict_spec _ _ _).ext.trans (resolveHist_spec _ _ _).ext).trans (copyDict_ext _ _)).trans
        (copyHist_ext _ _)
  | scribble a p => simp [Op.isScribble] at hs

theorem step_heap_length_le (s : State) (o : Op) : s.heap.length ≤ (step s o).1.heap.length := by
  cases ho : o.isScribble
  · exact (step_ext s o ho).le
  · cases o <;> simp [Op.isScribble] at ho
    simp only [step]; split <;> simp

/-- the accessors only hand out fresh arrays (or `None` / scalars) -/
theorem step_res_fresh (s : State) (o : Op) : ∀ b : Nat, b ∈ (step s o).2.addrs → s.heap.length ≤ b := by
  intro b
  cases o with
  | setCurrent k x copy => simp only [step]; split <;> (try split) <;> simp [Res.addrs]
  | updateCurrent kvs copy => simp only [step]; split <;> (try split) <;> simp [Res.addrs]
  | getCurrent k =>
    cases k with
    | some k =>
      simp only [step]
      split
      · simp [Res.addrs]
      · split
        · simp [Res.addrs]
        · intro hb; exact (copyVal_fresh hb).1
    | none => intro hb; exact (copyDict_fresh hb).1
  | getHistory k index flat =>
    simp only [step]
    split
    · simp [Res.addrs]
    · split
      · simp [Res.addrs]
      · split
        · split
          · simp [Res.addrs]
          · simp only [Res.addrs, Val.addrs, List.mem_singleton]; intro hb; omega
        · split
          · simp [Res.addrs]
          · split
            · simp [Res.addrs]
            · intro hb; exact (copyVal_fresh hb).1
  | getLastHistory k =>
    simp only [step]
    split
    · simp [Res.addrs]
    · split
      · simp [Res.addrs]
      · split
        · simp [Res.addrs, Val.addrs]
        · intro hb; exact (copyVal_fresh hb).1
  | commit strict => simp only [step]; split <;> simp [Res.addrs]
  | computeResults =>
    simp only [step]
    split
    · intro hb; exact (copyDict_fresh hb).1
    · have hfe := (fillCache_ext s.history s.heap []).le
      split
      · simp [Res.addrs]
      · intro hb
        have := (copyDict_fresh hb).1
        simp only [List.length_append, List.length_singleton] at this
        omega
  | logw beta => simp only [step, Res.addrs, Val.addrs, List.mem_singleton]; intro hb; omega
  | toDict =>
    simp only [step, Res.addrs, List.mem_append]
    intro hb
    rcases hb with hb | hb
    · exact (copyDict_fresh hb).1
    · have := (copyHist_fresh hb).1
      have := (copyDict_ext s.heap s.current).le
      omega
  | updateFromDict cur hist => simp only [step]; split <;> simp [Res.addrs]
  | scribble a p => simp only [step]; split <;> simp [Res.addrs]

def Op.isCommit : Op → Bool
  | .commit _ => true
  | _ => false

def Op.isImport : Op → Bool
  | .updateFromDict _ _ => true
  | _ => false

/-- operations by which the caller asks for a reference to be stored as is -/
def Op.optIn : Op → Bool
  | .setCurrent _ _ copy => !copy
  | .updateCurrent _ copy => !copy
  | _ => false

theorem updLoop_imported (kvs : List (Key × Val)) (s : State) : (updLoop true kvs s).1.imported = s.imported := by
  induction kvs generalizing s with
  | nil => rfl
  | cons kv r ih =>
    obtain ⟨k, v⟩ := kv
    simp only [updLoop]
    split
    · rw [ih]; simp [storeCurrent]
    · rfl

theorem step_imported (s : State) (o : Op) (ho : o.optIn = false) : (step s o).1.imported = s.imported := by
  cases o with
  | setCurrent k x copy =>
    simp only [Op.optIn, Bool.not_eq_false'] at ho
    subst ho
    simp only [step]
    split
    · rfl
    · split
      · rfl
      · simp [storeCurrent]
  | updateCurrent kvs copy =>
    simp only [Op.optIn, Bool.not_eq_false'] at ho
    subst ho
    simp only [step]
    split
    · rfl
    · split
      · simp [updLoop_imported]
      · simp [updLoop_imported]
  | getCurrent k =>
    cases k with
    | some k => simp only [step]; split <;> (try split) <;> rfl
    | none => rfl
  | getHistory k index flat =>
    simp only [step]
    split
    · rfl
    · split
      · rfl
      · split
        · split <;> rfl
        · split
          · rfl
          · split <;> rfl
  | getLastHistory k =>
    simp only [step]
    split
    · rfl
    · split
      · rfl
      · split <;> rfl
  | commit strict =>
    simp only [step]
    split
    · rfl
    · exact (commitLoop_frame commitKeys s).2.2.2.1
  | computeResults => simp only [step]; split <;> (try split) <;> rfl
  | logw beta => rfl
  | toDict => rfl
  | updateFromDict cur hist => simp only [step]; split <;> rfl
  | scribble a p => simp only [step]; split <;> rfl

theorem step_escaped_mono (s : State) (o : Op) : ∀ a : Nat, a ∈ s.escaped → a ∈ (step s o).1.escaped := by
  intro a ha
  cases o with
  | setCurrent k x copy =>
    simp only [step]
    have m := (resolveArg_spec s.heap s.escaped x).mono a ha
    split
    · exact ha
    · split
      · exact m
      · simp only [storeCurrent_escaped]; exact m
  | updateCurrent kvs copy =>
    simp only [step]
    have m := (resolveDict_spec s.heap s.escaped kvs).mono a ha
    split
    · exact ha
    · split
      · simp only [updLoop_escaped]; exact m
      · simp only [updLoop_escaped]; exact m
  | getCurrent k =>
    cases k with
    | some k => simp only [step]; split <;> (try split) <;> simp [ha]
    | none => simp [step, ha]
  | getHistory k index flat =>
    simp only [step]
    split
    · exact ha
    · split
      · exact ha
      · split
        · split <;> simp [ha]
        · split
          · exact ha
          · split <;> simp [ha]
  | getLastHistory k =>
    simp only [step]
    split
    · exact ha
    · split
      · exact ha
      · split <;> simp [ha]
  | commit strict =>
    simp only [step]
    split
    · exact ha
    · simp only [(commitLoop_frame commitKeys s).2.2.1]; exact ha
  | computeResults => simp only [step]; split <;> (try split) <;> simp [ha]
  | logw beta => simp [step, ha]
  | toDict => simp [step, ha]
  | updateFromDict cur hist =>
    simp only [step]
    split
    · exact ha
    · exact (resolveHist_spec _ _ _).mono a ((resolveDict_spec _ _ _).mono a ha)
  | scribble b p => simp only [step]; split <;> exact ha

/-! ### history -/

theorem updLoop_history (copy : Bool) (kvs : List (Key × Val)) (s : State) :
    (updLoop copy kvs s).1.history = s.history := by
  induction kvs generalizing s with
  | nil => rfl
  | cons kv r ih =>
    obtain ⟨k, v⟩ := kv
    simp only [updLoop]
    split
    · rw [ih]; unfold storeCurrent; split <;> rfl
    · rfl

/-- only `commit` and `update_from_dict` touch `_history` -/
theorem step_history_eq (s : State) (o : Op) (h1 : o.isCommit = false) (h2 : o.isImport = false) :
    (step s o).1.history = s.history := by
  cases o with
  | setCurrent k x copy =>
    simp only [step]
    split
    · rfl
    · split
      · rfl
      · unfold storeCurrent; split <;> rfl
  | updateCurrent kvs copy =>
    simp only [step]
    split
    · rfl
    · split <;> simp [updLoop_history]
  | getCurrent k =>
    cases k with
    | some k => simp only [step]; split <;> (try split) <;> rfl
    | none => rfl
  | getHistory k index flat =>
    simp only [step]
    split
    · rfl
    · split
      · rfl
      · split
        · split <;> rfl
        · split
          · rfl
          · split <;> rfl
  | getLastHistory k =>
    simp only [step]
    split
    · rfl
    · split
      · rfl
      · split <;> rfl
  | commit strict => simp [Op.isCommit] at h1
  | computeResults => simp only [step]; split <;> (try split) <;> rfl
  | logw beta => rfl
  | toDict => rfl
  | updateFromDict cur hist => simp [Op.isImport] at h2
  | scribble a p => simp only [step]; split <;> rfl

/-- what one pass of the commit loop does to the history list of key `k`: it appends `ext`, which holds exactly one
    entry — with the payload of the current value — when `k` is visited and its current value is not `None`,
    and nothing otherwise -/
theorem commitLoop_history {ks : List Key} (hnd : ks.Nodup) (s : State)
    (hcur : ∀ b : Nat, b ∈ dictAddrs s.current → b < s.heap.length) (k : Key) :
    ∃ ext : List Val,
      lookup k (commitLoop ks s).history = (lookup k s.history).map (fun l => l ++ ext) ∧
      (∀ b : Nat, b ∈ listAddrs ext → s.heap.length ≤ b ∧ b < (commitLoop ks s).heap.length) ∧
      ext.map (deref (commitLoop ks s).heap) =
        (if k ∈ ks then
          match lookup k s.current with
          | some v => if v = Val.none then [] else [deref s.heap v]
          | none => []
         else []) := by
  induction ks generalizing s with
  | nil =>
    refine ⟨[], ?_, ?_, ?_⟩
    · simp [commitLoop]
    · simp [listAddrs]
    · simp
  | cons k0 ks ih =>
    have hk0 : k0 ∉ ks := (List.nodup_cons.1 hnd).1
    have hnd' : ks.Nodup := (List.nodup_cons.1 hnd).2
    -- the branches in which nothing is appended for k0
    have skip : (lookup k0 s.current = none ∨ lookup k0 s.current = some Val.none) →
        commitLoop (k0 :: ks) s = commitLoop ks s := by
      intro h
      rcases h with h | h <;> simp [commitLoop, h]
    by_cases hsk : lookup k0 s.current = none ∨ lookup k0 s.current = some Val.none
    · rw [skip hsk]
      obtain ⟨ext, e1, e2, e3⟩ := ih hnd' s hcur
      refine ⟨ext, e1, e2, ?_⟩
      rw [e3]
      by_cases hk : k = k0
      · subst hk
        rcases hsk with h | h <;> simp [hk0, h]
      · simp [hk]
    · -- k0 has a value v ≠ None: one copy is appended
      have hv : ∃ v, lookup k0 s.current = some v ∧ v ≠ Val.none := by
        cases hl : lookup k0 s.current with
        | none => exact absurd (Or.inl hl) hsk
        | some v => exact ⟨v, rfl, fun hn => hsk (Or.inr (by rw [hl, hn]))⟩
      obtain ⟨v, hl, hvn⟩ := hv
      have hstep : commitLoop (k0 :: ks) s =
          commitLoop ks { s with heap := (copyVal s.heap v).1, history := adjust k0 (fun l => l ++ [(copyVal s.heap v).2]) s.history } := by
        simp [commitLoop, hl, hvn]
      rw [hstep]
      have hext := copyVal_ext s.heap v
      have hcur' : ∀ b : Nat, b ∈ dictAddrs s.current → b < (copyVal s.heap v).1.length :=
        fun b hb => Nat.lt_of_lt_of_le (hcur b hb) hext.le
      obtain ⟨ext, e1, e2, e3⟩ := ih hnd' { s with heap := (copyVal s.heap v).1, history := adjust k0 (fun l => l ++ [(copyVal s.heap v).2]) s.history } hcur'
      have hfin := (commitLoop_frame ks { s with heap := (copyVal s.heap v).1, history := adjust k0 (fun l => l ++ [(copyVal s.heap v).2]) s.history }).2.2.2.2
      simp only at e1 e2 e3 hfin
      by_cases hk : k = k0
      · subst hk
        have hext0 : ext = [] := by
          have h3 := e3
          simp only [hk0, if_false, List.map_eq_nil_iff] at h3
          exact h3
        subst hext0
        refine ⟨[(copyVal s.heap v).2], ?_, ?_, ?_⟩
        · rw [e1, lookup_adjust]; simp; rfl
        · intro b hb
          simp only [listAddrs, List.flatMap_cons, List.flatMap_nil, List.append_nil] at hb
          have := copyVal_fresh hb
          have := hfin.le
          omega
        · simp only [List.mem_cons, true_or, if_true, hl, hvn, if_false, List.map_cons, List.map_nil]
          congr 1
          rw [deref_ext hfin (fun b hb => (copyVal_fresh hb).2), copyVal_deref]
      · refine ⟨ext, ?_, ?_, ?_⟩
        · rw [e1, lookup_adjust]; simp [Ne.symm hk]
        · intro b hb
          have := e2 b hb
          have := hext.le
          omega
        · rw [e3]
          simp only [List.mem_cons, hk, false_or]
          split
          · cases hlk : lookup k s.current with
            | none => rfl
            | some w =>
              simp only
              split
              · rfl
              · congr 1
                exact deref_ext hext (fun b hb => hcur b (mem_dictAddrs.2 ⟨k, by rw [← mem_addrs_ref.1 hb]; exact lookup_mem hlk⟩))
          · rfl

/-- ghost bookkeeping is complete: every array an operation returns is recorded as held by the caller -/
theorem step_res_escaped (s : State) (o : Op) : ∀ b : Nat, b ∈ (step s o).2.addrs → b ∈ (step s o).1.escaped := by
  intro b
  cases o with
  | setCurrent k x copy => simp only [step]; split <;> (try split) <;> simp [Res.addrs]
  | updateCurrent kvs copy => simp only [step]; split <;> (try split) <;> simp [Res.addrs]
  | getCurrent k =>
    cases k with
    | some k =>
      simp only [step]
      split
      · simp [Res.addrs]
      · split
        · simp [Res.addrs]
        · simp only [Res.addrs, List.mem_append]; exact Or.inl
    | none => simp only [step, Res.addrs, List.mem_append]; exact Or.inl
  | getHistory k index flat =>
    simp only [step]
    split
    · simp [Res.addrs]
    · split
      · simp [Res.addrs]
      · split
        · split
          · simp [Res.addrs]
          · simp only [Res.addrs, Val.addrs, List.mem_cons, List.not_mem_nil, or_false]; exact Or.inl
        · split
          · simp [Res.addrs]
          · split
            · simp [Res.addrs]
            · simp only [Res.addrs, List.mem_append]; exact Or.inl
  | getLastHistory k =>
    simp only [step]
    split
    · simp [Res.addrs]
    · split
      · simp [Res.addrs]
      · split
        · simp [Res.addrs, Val.addrs]
        · simp only [Res.addrs, List.mem_append]; exact Or.inl
  | commit strict => simp only [step]; split <;> simp [Res.addrs]
  | computeResults =>
    simp only [step]
    split
    · simp only [Res.addrs, List.mem_append]; exact Or.inl
    · split
      · simp [Res.addrs]
      · simp only [Res.addrs, List.mem_append]; exact Or.inl
  | logw beta => simp only [step, Res.addrs, Val.addrs, List.mem_cons, List.not_mem_nil, or_false]; exact Or.inl
  | toDict =>
    simp only [step, Res.addrs, List.mem_append]
    intro hb
    exact Or.inl hb
  | updateFromDict cur hist => simp only [step]; split <;> simp [Res.addrs]
  | scribble a p => simp only [step]; split <;> simp [Res.addrs]

/-! ### traces with and without the caller's in-place writes -/

/-- an operation through which the caller neither asks for sharing nor passes back an array it obtained earlier -/
def Op.clean (o : Op) : Bool := !o.optIn && o.heldAddrs.isEmpty && !o.isScribble

/-- an operation sequence in which the caller never opts into sharing (`copy=False`) and never passes back in an array
    that it has overwritten before (`scr` = addresses overwritten so far).  Passing back arrays it obtained and left
    alone — e.g. re-importing an exported dictionary — is allowed, and so is overwriting them afterwards. -/
def okSeq : List Addr → List Op → Bool
  | _, [] => true
  | scr, .scribble a p :: os => okSeq (a :: scr) os
  | scr, o :: os => !o.optIn && o.heldAddrs.all (fun h => !scr.contains h) && okSeq scr os

/-- what the caller sees: after every operation other than its own in-place writes, the payload of the returned value
    and every observable read -/
def trace (s : State) : List Op → List (PRes × Obs)
  | [] => []
  | o :: os =>
    if o.isScribble then trace (step s o).1 os
    else (derefRes (step s o).1.heap (step s o).2, observe (step s o).1) :: trace (step s o).1 os

def pokeMany (t : State) (l : List (Nat × Option Content)) : State :=
  l.foldl (fun st ac => poke st ac.1 ac.2) t

theorem pokeMany_frame (l : List (Nat × Option Content)) (t : State) :
    (pokeMany t l).current = t.current ∧ (pokeMany t l).history = t.history ∧ (pokeMany t l).cache = t.cache ∧
    (pokeMany t l).escaped = t.escaped ∧ (pokeMany t l).imported = t.imported ∧
    (pokeMany t l).heap.length = t.heap.length := by
  induction l generalizing t with
  | nil => simp [pokeMany]
  | cons ac l ih =>
    have := ih (poke t ac.1 ac.2)
    simpa [pokeMany, poke] using this

theorem reach_poke (s : State) (a : Nat) (c : Option Content) : reach (poke s a c) = reach s := rfl

theorem step_pokeMany {o : Op} {l : List (Nat × Option Content)} {t : State}
    (hl : ∀ ac ∈ l, ac.1 < t.heap.length ∧ ac.1 ∉ reach t) (hh : ∀ ac ∈ l, ac.1 ∉ o.heldAddrs)
    (hs : o.isScribble = false) :
    step (pokeMany t l) o = (pokeMany (step t o).1 l, (step t o).2) := by
  induction l generalizing t with
  | nil => rfl
  | cons ac l ih =>
    have h0 := hl ac (by simp)
    have h1 : step (poke t ac.1 ac.2) o = (poke (step t o).1 ac.1 ac.2, (step t o).2) :=
      step_poke h0.1 h0.2 (hh ac (by simp)) hs
    have h2 := ih (t := poke t ac.1 ac.2) (fun x hx => by
      have := hl x (List.mem_cons_of_mem _ hx)
      exact ⟨by simpa [poke] using this.1, by rw [reach_poke]; exact this.2⟩)
      (fun x hx => hh x (List.mem_cons_of_mem _ hx))
    simp only [pokeMany, List.foldl_cons] at h2 ⊢
    rw [h2, h1]

theorem observe_poke {s : State} {a : Nat} {c : Option Content} (ha : a < s.heap.length) (hr : a ∉ reach s) :
    observe (poke s a c) = observe s := by
  obtain ⟨hcur, hhist, _⟩ := not_mem_reach hr
  have hstep := step_poke (o := .computeResults) (c := c) ha hr (by simp [Op.heldAddrs]) rfl
  have hres : a ∉ (step s .computeResults).2.addrs := fun hm => by
    have := step_res_fresh s .computeResults a hm
    omega
  simp only [observe, hstep]
  simp only [poke, derefDict_set hcur, derefHist_set hhist, derefRes_set hres, logwStub_set hhist]

/-- history and results do not depend on arrays reachable from `_current` only -/
theorem observe_poke_hist {s : State} {a : Nat} {c : Option Content} (ha : a < s.heap.length)
    (hhist : a ∉ histAddrs s.history) (hcache : a ∉ cacheAddrs s.cache) :
    (observe (poke s a c)).history = (observe s).history ∧ (observe (poke s a c)).results = (observe s).results ∧
    (observe (poke s a c)).logw = (observe s).logw := by
  have hstep := computeResults_poke (c := c) ha hhist hcache
  have hres : a ∉ (step s .computeResults).2.addrs := fun hm => by
    have := step_res_fresh s .computeResults a hm
    omega
  simp only [observe, hstep]
  simp only [poke, derefHist_set hhist, derefRes_set hres, logwStub_set hhist, and_self]

theorem observe_pokeMany {l : List (Nat × Option Content)} {t : State}
    (hl : ∀ ac ∈ l, ac.1 < t.heap.length ∧ ac.1 ∉ reach t) : observe (pokeMany t l) = observe t := by
  induction l generalizing t with
  | nil => rfl
  | cons ac l ih =>
    have h0 := hl ac (by simp)
    have h2 := ih (t := poke t ac.1 ac.2) (fun x hx => by
      have := hl x (List.mem_cons_of_mem _ hx)
      exact ⟨by simpa [poke] using this.1, by rw [reach_poke]; exact this.2⟩)
    simp only [pokeMany, List.foldl_cons] at h2 ⊢
    rw [h2, observe_poke h0.1 h0.2]

theorem derefRes_pokeMany {l : List (Nat × Option Content)} {t : State} {r : Res}
    (hl : ∀ ac ∈ l, ac.1 ∉ r.addrs) : derefRes (pokeMany t l).heap r = derefRes t.heap r := by
  induction l generalizing t with
  | nil => rfl
  | cons ac l ih =>
    have h2 := ih (t := poke t ac.1 ac.2) (fun x hx => hl x (List.mem_cons_of_mem _ hx))
    simp only [pokeMany, List.foldl_cons] at h2 ⊢
    rw [h2]
    exact derefRes_set (hl ac (by simp))

theorem not_reach_of_inv {t : State} (hI : Inv t) {a : Nat} (ha : a ∈ t.escaped) (h1 : a ∉ t.imported) :
    a ∉ reach t := by
  intro hr
  rcases mem_reach.1 hr with h | h
  · exact h1 (hI.sep a h ha)
  · exact hI.sepH a h ha

theorem safe_of_inv {t : State} (hI : Inv t) (himp : t.imported = []) {a : Nat}
    (ha : a ∈ t.escaped) : a < t.heap.length ∧ a ∉ reach t :=
  ⟨hI.esc_lt a ha, not_reach_of_inv hI ha (by simp [himp])⟩

theorem clean_spec {o : Op} (h : o.clean = true) : o.optIn = false ∧ o.heldAddrs = [] ∧ o.isScribble = false := by
  simp only [Op.clean, Bool.and_eq_true, Bool.not_eq_true', List.isEmpty_iff] at h
  exact ⟨h.1.1, h.1.2, h.2⟩

theorem legal_held {esc : List Addr} {x : Arg} (hl : x.legal esc = true) : ∀ a : Nat, a ∈ x.heldAddrs → a ∈ esc := by
  cases x <;> simp_all [Arg.legal, Arg.heldAddrs]

theorem dictLegal_held {esc : List Addr} {d : List (Key × Arg)} (hl : dictLegal esc d = true) :
    ∀ a : Nat, a ∈ d.flatMap (fun kv => kv.2.heldAddrs) → a ∈ esc := by
  intro a ha
  simp only [List.mem_flatMap] at ha
  obtain ⟨kv, hm, hx⟩ := ha
  simp only [dictLegal, List.all_eq_true] at hl
  exact legal_held (hl kv hm) a hx

theorem histLegal_held {esc : List Addr} {d : List (Key × List Arg)} (hl : histLegal esc d = true) :
    ∀ a : Nat, a ∈ d.flatMap (fun kv => kv.2.flatMap Arg.heldAddrs) → a ∈ esc := by
  intro a ha
  simp only [List.mem_flatMap] at ha
  obtain ⟨kv, hm, x, hx, hax⟩ := ha
  simp only [histLegal, List.all_eq_true] at hl
  exact legal_held (hl kv hm x hx) a hax

theorem okSeq_cons {scr : List Addr} {o : Op} {os : List Op} (hs : o.isScribble = false)
    (h : okSeq scr (o :: os) = true) :
    o.optIn = false ∧ (∀ x : Nat, x ∈ o.heldAddrs → x ∉ scr) ∧ okSeq scr os = true := by
  cases o <;> simp_all [okSeq, Op.isScribble]

theorem okSeq_of_clean {ops : List Op} (h : ∀ o ∈ ops, o.isScribble = true ∨ o.clean = true) (scr : List Addr) :
    okSeq scr ops = true := by
  induction ops generalizing scr with
  | nil => rfl
  | cons o os ih =>
    have hos : ∀ o ∈ os, o.isScribble = true ∨ o.clean = true := fun x hx => h x (List.mem_cons_of_mem _ hx)
    rcases h o (by simp) with hsc | hcl
    · cases o with
      | scribble a p => simp only [okSeq]; exact ih hos _
      | _ => simp [Op.isScribble] at hsc
    · obtain ⟨h1, h2, h3⟩ := clean_spec hcl
      cases o <;> simp_all [okSeq, Op.isScribble]

theorem trace_pokeMany (ops : List Op) : ∀ (t : State) (l : List (Nat × Option Content)) (scr : List Addr), Inv t →
    t.imported = [] → (∀ ac ∈ l, ac.1 ∈ t.escaped ∧ ac.1 ∈ scr) → okSeq scr ops = true →
    trace (pokeMany t l) ops = trace t (ops.filter (fun o => !o.isScribble)) := by
  induction ops with
  | nil => intros; rfl
  | cons o os ih =>
    intro t l scr hI himp hl hops
    have hfr := pokeMany_frame l t
    cases hsc : o.isScribble with
    | true =>
      -- the caller's own write: it only lengthens the list of pending writes
      cases o with
      | scribble a p =>
        have hos : okSeq (a :: scr) os = true := by simpa [okSeq] using hops
        have hstep : (step (pokeMany t l) (.scribble a p)).1 =
            if a ∈ t.escaped then pokeMany t (l ++ [(a, some p)]) else pokeMany t l := by
          by_cases hm : a ∈ t.escaped
          · have hm' : (pokeMany t l).escaped.contains a = true := by rw [hfr.2.2.2.1]; simpa using hm
            simp only [step, hm', if_true, hm]
            simp [pokeMany, List.foldl_append, poke]
          · have hm' : a ∉ (pokeMany t l).escaped := by rw [hfr.2.2.2.1]; exact hm
            simp [step, hm', hm]
        have e1 : trace (pokeMany t l) (Op.scribble a p :: os) = trace (step (pokeMany t l) (.scribble a p)).1 os := by
          simp [trace, Op.isScribble]
        have e2 : (Op.scribble a p :: os).filter (fun o => !o.isScribble) = os.filter (fun o => !o.isScribble) := by
          simp [Op.isScribble]
        rw [e1, e2, hstep]
        split
        · rename_i hmem
          refine ih t _ (a :: scr) hI himp (fun ac hac => ?_) hos
          simp only [List.mem_append, List.mem_singleton] at hac
          rcases hac with hac | hac
          · exact ⟨(hl ac hac).1, List.mem_cons_of_mem _ (hl ac hac).2⟩
          · subst hac; exact ⟨hmem, by simp⟩
        · exact ih t l (a :: scr) hI himp (fun ac hac => ⟨(hl ac hac).1, List.mem_cons_of_mem _ (hl ac hac).2⟩) hos
      | _ => simp [Op.isScribble] at hsc
    | false =>
      obtain ⟨hopt, hheld, hos⟩ := okSeq_cons hsc hops
      have hsafe : ∀ ac ∈ l, ac.1 < t.heap.length ∧ ac.1 ∉ reach t := fun ac hac => safe_of_inv hI himp (hl ac hac).1
      have hstep := step_pokeMany (o := o) hsafe (fun ac hac hm => hheld _ hm (hl ac hac).2) hsc
      have hI' := step_inv t o hI
      have himp' : (step t o).1.imported = [] := by rw [step_imported t o hopt, himp]
      have hl' : ∀ ac ∈ l, ac.1 ∈ (step t o).1.escaped ∧ ac.1 ∈ scr :=
        fun ac hac => ⟨step_escaped_mono t o _ (hl ac hac).1, (hl ac hac).2⟩
      have hsafe' : ∀ ac ∈ l, ac.1 < (step t o).1.heap.length ∧ ac.1 ∉ reach (step t o).1 :=
        fun ac hac => safe_of_inv hI' himp' (hl' ac hac).1
      have hres : ∀ ac ∈ l, ac.1 ∉ (step t o).2.addrs := fun ac hac hm => by
        have h1 := step_res_fresh t o _ hm
        have h2 := (hsafe ac hac).1
        omega
      simp only [trace, hsc, Bool.false_eq_true, if_false, List.filter_cons, Bool.not_false, if_true]
      rw [hstep]
      simp only [derefRes_pokeMany hres, observe_pokeMany hsafe']
      rw [ih (step t o).1 l scr hI' himp' hl' hos]

end Model.StateMgr
