import TempestVerif.Model.ConfigSpec
/-
  Reusable facts about the configuration-rule interpreter of `Model/ConfigSpec.lean` (nothing here mentions a generated
  table): acceptance ⇔ every rule evaluates to False, closed forms of the statement shapes of `__post_init__`,
  evaluation of conditions as propositions about atoms, "a condition depends only on the options it mentions",
  and the Boolean covering-array checkers with their soundness lemmas.  Core Lean only.
-/
set_option linter.unusedSimpArgs false
set_option linter.unusedVariables false
namespace Model.ConfigSpec

/-! ### generic facts about the interpreter -/

theorem fired_nil_iff (c : Cfg) (rules : List Rule) :
    fired c rules = .ok [] ↔ ∀ r ∈ rules, eval c r.cond = .ok false := by
  induction rules with
  | nil => simp [fired]
  | cons r rs ih =>
    simp only [fired, List.forall_mem_cons]
    cases h : eval c r.cond with
    | error k => simp
    | ok b =>
      cases h2 : fired c rs with
      | error k =>
        simp only [reduceCtorEq, false_iff, not_and]
        intro _ h3
        rw [ih.mpr h3] at h2
        cases h2
      | ok ts =>
        cases b <;> simp [← ih, h2]

theorem validate_accept_iff (rules : List Rule) (c : Cfg) :
    validate rules c = .accept ↔ ∀ r ∈ rules, eval c r.cond = .ok false := by
  rw [← fired_nil_iff]
  unfold validate
  cases h : fired c rules with
  | error k => simp
  | ok ts => cases ts <;> simp

/-! ### closed forms of the statement shapes that occur in `__post_init__` -/

theorem run_raise_notInt (c : Cfg) (f : Field) (t : String) :
    Stmt.run c (.raiseIf (.not (.isInt f)) t) = if (c f).isInt then .ok c else .error (.reject [t]) := by
  simp only [Stmt.run, eval]
  cases (c f).isInt <;> simp

theorem run_chain_none_const (c : Cfg) (f : Field) (v : V) :
    Stmt.run c (.chain [(.isNone f, f, .const v)]) = .ok (if (c f).isNone then c.set f v else c) := by
  simp only [Stmt.run, runChain, eval, VExpr.eval]
  cases (c f).isNone <;> simp

theorem run_chain_dir (c : Cfg) (f : Field) :
    Stmt.run c (.chain [(.isNone f, f, .const .path), (.isStr f, f, .pathOf f)])
      = .ok (if (c f).isNone || (c f).isStr then c.set f .path else c) := by
  simp only [Stmt.run, runChain, eval, VExpr.eval]
  cases h : c f <;> simp [V.isNone, V.isStr]

theorem run_chain_none_mul (c : Cfg) (f g : Field) (k : Int) (d : Int) (h : (c g).intVal? = some d) :
    Stmt.run c (.chain [(.isNone f, f, .mulInt k g)]) = .ok (if (c f).isNone then c.set f (.int (k * d)) else c) := by
  simp only [Stmt.run, runChain, eval, VExpr.eval]
  cases hg : c g <;> simp [hg, V.intVal?] at h <;> cases (c f).isNone <;> simp [V.mulInt, h]

/-- `v` is None or a number: the only values for which `v is None or v <= 0` does not raise -/
def noneOrNum (v : V) : Bool := v.isNone || v.isNum

/-- `v is None or v <= 0` for such a value -/
def noneOrLe0 (v : V) : Bool :=
  match v with
  | .none => true
  | .int n => decide (n ≤ 0)
  | .bool b => !b
  | .float f => FV.le f (.fin 0)
  | _ => false

theorem run_chain_default_const (c : Cfg) (f : Field) (v : V) :
    Stmt.run c (.chain [(.or (.isNone f) (.cmp0 .le f), f, .const v)])
      = if noneOrNum (c f) then .ok (if noneOrLe0 (c f) then c.set f v else c) else .error (.raise .typeError) := by
  simp only [Stmt.run, runChain, eval, VExpr.eval]
  cases h : c f with
  | int n => simp [V.isNone, V.isNum, V.cmp0, noneOrNum, noneOrLe0, Cmp.int]; split <;> simp [*]
  | float x => simp [V.isNone, V.isNum, V.cmp0, noneOrNum, noneOrLe0, FV.cmp]; split <;> simp [*]
  | bool b => cases b <;> simp [V.isNone, V.isNum, V.cmp0, noneOrNum, noneOrLe0, Cmp.int]
  | _ => simp [V.isNone, V.isNum, V.cmp0, noneOrNum, noneOrLe0]

def mulNum (k : Int) (v : V) : V :=
  match v with
  | .int n => .int (k * n)
  | .bool b => .int (k * (if b then 1 else 0))
  | .float f => .float (f.mulInt k)
  | x => x

theorem run_chain_default_mul (c : Cfg) (f g : Field) (k : Int) (hg : (c g).isNum) :
    Stmt.run c (.chain [(.or (.isNone f) (.cmp0 .le f), f, .mulInt k g)])
      = if noneOrNum (c f) then .ok (if noneOrLe0 (c f) then c.set f (mulNum k (c g)) else c) else .error (.raise .typeError) := by
  have hm : (c g).mulInt k = .ok (mulNum k (c g)) := by
    cases h : c g <;> simp [h, V.isNum] at hg <;> simp [V.mulInt, mulNum]
  simp only [Stmt.run, runChain, eval, VExpr.eval, hm]
  cases h : c f with
  | int n => simp [V.isNone, V.isNum, V.cmp0, noneOrNum, noneOrLe0, Cmp.int]; split <;> simp [*]
  | float x => simp [V.isNone, V.isNum, V.cmp0, noneOrNum, noneOrLe0, FV.cmp]; split <;> simp [*]
  | bool b => cases b <;> simp [V.isNone, V.isNum, V.cmp0, noneOrNum, noneOrLe0, Cmp.int]
  | _ => simp [V.isNone, V.isNum, V.cmp0, noneOrNum, noneOrLe0]


theorem ite_set_apply (p : Prop) [Decidable p] (c : Cfg) (f g : Field) (v : V) :
    (if p then c.set f v else c) g = if p ∧ g = f then v else c g := by
  by_cases hp : p <;> simp [hp, Cfg.set]

theorem isNum_of_not_le0 {v : V} (h : noneOrNum v = true) (h2 : noneOrLe0 v = false) : v.isNum = true := by
  cases v <;> simp_all [noneOrNum, noneOrLe0, V.isNone, V.isNum]

/-! ### evaluation of conditions, as propositions about the atoms -/

theorem eval_not (c : Cfg) (e : Expr) (b : Bool) : eval c (.not e) = .ok b ↔ eval c e = .ok (!b) := by
  simp only [eval]
  cases h : eval c e with
  | error k => simp
  | ok x => cases x <;> cases b <;> simp

theorem eval_and_false (c : Cfg) (a b : Expr) :
    eval c (.and a b) = .ok false ↔ eval c a = .ok false ∨ (eval c a = .ok true ∧ eval c b = .ok false) := by
  simp only [eval]
  cases h : eval c a with
  | error k => simp
  | ok x => cases x <;> simp

theorem eval_and_true (c : Cfg) (a b : Expr) :
    eval c (.and a b) = .ok true ↔ eval c a = .ok true ∧ eval c b = .ok true := by
  simp only [eval]
  cases h : eval c a with
  | error k => simp
  | ok x => cases x <;> simp

theorem eval_or_false (c : Cfg) (a b : Expr) :
    eval c (.or a b) = .ok false ↔ eval c a = .ok false ∧ eval c b = .ok false := by
  simp only [eval]
  cases h : eval c a with
  | error k => simp
  | ok x => cases x <;> simp

theorem eval_or_true (c : Cfg) (a b : Expr) :
    eval c (.or a b) = .ok true ↔ eval c a = .ok true ∨ (eval c a = .ok false ∧ eval c b = .ok true) := by
  simp only [eval]
  cases h : eval c a with
  | error k => simp
  | ok x => cases x <;> simp

theorem eval_truthy (c : Cfg) (f : Field) (b : Bool) : eval c (.truthy f) = .ok b ↔ (c f).truthy = b := by simp [eval]
theorem eval_isNone (c : Cfg) (f : Field) (b : Bool) : eval c (.isNone f) = .ok b ↔ (c f).isNone = b := by simp [eval]
theorem eval_isInt (c : Cfg) (f : Field) (b : Bool) : eval c (.isInt f) = .ok b ↔ (c f).isInt = b := by simp [eval]
theorem eval_isNum (c : Cfg) (f : Field) (b : Bool) : eval c (.isNum f) = .ok b ↔ (c f).isNum = b := by simp [eval]
theorem eval_isStr (c : Cfg) (f : Field) (b : Bool) : eval c (.isStr f) = .ok b ↔ (c f).isStr = b := by simp [eval]
theorem eval_isPath (c : Cfg) (f : Field) (b : Bool) : eval c (.isPath f) = .ok b ↔ (c f).isPath = b := by simp [eval]
theorem eval_isCallable (c : Cfg) (f : Field) (b : Bool) : eval c (.isCallable f) = .ok b ↔ (c f).isCallable = b := by simp [eval]
theorem eval_notIn (c : Cfg) (f : Field) (l : List String) (b : Bool) : eval c (.notIn f l) = .ok b ↔ (c f).notIn l = b := by simp [eval]
theorem eval_isBool (c : Cfg) (f : Field) (b : Bool) : eval c (.isBool f) = .ok b ↔ (c f).isBool = b := by simp [eval]
theorem eval_isFinite (c : Cfg) (f : Field) : eval c (.isFinite f) = (c f).isFinite := rfl
theorem eval_allIdxStrict (c : Cfg) (f hi : Field) (loOp hiOp : Cmp) (lo : Int) :
    eval c (.allIdxStrict f loOp lo hiOp hi) = (c f).allIdxStrict loOp lo hiOp (c hi) := rfl
theorem eval_cmp0 (c : Cfg) (f : Field) (op : Cmp) : eval c (.cmp0 op f) = (c f).cmp0 op := rfl
theorem eval_overlap (c : Cfg) (f g : Field) : eval c (.overlap f g) = (c f).overlap (c g) := rfl
theorem eval_allIdx (c : Cfg) (f hi : Field) (loOp hiOp : Cmp) (lo : Int) :
    eval c (.allIdx f loOp lo hiOp hi) = (c f).allIdx loOp lo hiOp (c hi) := rfl

/-! ### acceptance by the generated tables ⇔ the hand-written constraints -/

theorem runChain_error_ne_accept (c : Cfg) (bs : List (Expr × Field × VExpr)) : runChain c bs ≠ .error .accept := by
  induction bs with
  | nil => simp [runChain]
  | cons b bs ih =>
    obtain ⟨e, f, v⟩ := b
    simp only [runChain]
    cases eval c e with
    | error k => simp
    | ok x =>
      cases x
      · simpa using ih
      · cases v.eval c <;> simp

theorem stmt_error_ne_accept (c : Cfg) (s : Stmt) : s.run c ≠ .error .accept := by
  cases s with
  | raiseIf e t =>
    simp only [Stmt.run]
    cases eval c e with
    | error k => simp
    | ok x => cases x <;> simp
  | chain bs => exact runChain_error_ne_accept c bs
  | warnIf e =>
    simp only [Stmt.run]
    cases eval c e <;> simp

theorem runStmts_error_ne_accept (ss : List Stmt) (c : Cfg) : runStmts ss c ≠ .error .accept := by
  induction ss generalizing c with
  | nil => simp [runStmts]
  | cons s ss ih =>
    simp only [runStmts]
    cases h : s.run c with
    | error o =>
      intro h2
      injection h2 with h2
      subst h2
      exact stmt_error_ne_accept c s h
    | ok c' => exact ih c'

theorem run_accept_iff_stages (S : Spec) (c : Cfg) :
    run S c = .accept ↔ ∃ c', runStmts S.pre c = .ok c' ∧ (∀ r ∈ S.rules, eval c' r.cond = .ok false) ∧
      ∃ c'', runStmts S.post c' = .ok c'' := by
  unfold run runCfg
  cases h1 : runStmts S.pre c with
  | error o =>
    simp only [reduceCtorEq, false_and, exists_false, iff_false]
    intro h
    subst h
    exact runStmts_error_ne_accept _ _ h1
  | ok c' =>
    simp only [Except.ok.injEq, exists_eq_left', ← validate_accept_iff]
    cases h2 : validate S.rules c' with
    | accept =>
      cases h3 : runStmts S.post c' with
      | error o =>
        simp only [reduceCtorEq, exists_false, and_false, iff_false]
        intro h
        subst h
        exact runStmts_error_ne_accept _ _ h3
      | ok c'' => simp
    | reject t => simp
    | raise k => simp

theorem isInt_of_intVal_none {v : V} (h : v.intVal? = none) : v.isInt = false := by
  cases v <;> simp_all [V.intVal?, V.isInt]

theorem isInt_of_intVal_some {v : V} {d : Int} (h : v.intVal? = some d) : v.isInt = true := by
  cases v <;> simp_all [V.intVal?, V.isInt]


/-! ### a condition depends only on the options it mentions -/

def exprFields : Expr → List Field
  | .truthy f | .isNone f | .isInt f | .isNum f | .isStr f | .isPath f | .isCallable f => [f]
  | .cmp0 _ f => [f]
  | .notIn f _ => [f]
  | .overlap f g => [f, g]
  | .allIdx f _ _ _ hi => [f, hi]
  | .ltAdd _ f g _ => [f, g]
  | .isBool f | .isFinite f => [f]
  | .allIdxStrict f _ _ _ hi => [f, hi]
  | .not e => exprFields e
  | .and a b => exprFields a ++ exprFields b
  | .or a b => exprFields a ++ exprFields b

theorem eval_congr (c c' : Cfg) (e : Expr) (h : ∀ f ∈ exprFields e, c f = c' f) : eval c e = eval c' e := by
  induction e with
  | not e ih => simp only [eval, ih h]
  | and a b iha ihb =>
    simp only [exprFields, List.mem_append] at h
    simp only [eval, iha (fun f hf => h f (Or.inl hf)), ihb (fun f hf => h f (Or.inr hf))]
  | or a b iha ihb =>
    simp only [exprFields, List.mem_append] at h
    simp only [eval, iha (fun f hf => h f (Or.inl hf)), ihb (fun f hf => h f (Or.inr hf))]
  | _ => simp_all [eval, exprFields]

/-- `validate()` looks at nothing but the options its rules mention -/
theorem validate_congr (rules : List Rule) (c c' : Cfg)
    (h : ∀ r ∈ rules, ∀ f ∈ exprFields r.cond, c f = c' f) : validate rules c = validate rules c' := by
  have hf : fired c rules = fired c' rules := by
    induction rules with
    | nil => rfl
    | cons r rs ih =>
      simp only [fired, eval_congr c c' r.cond (h r (List.mem_cons_self ..)),
        ih (fun r' hr' => h r' (List.mem_cons_of_mem _ hr'))]
  simp only [validate, hf]

theorem runCfg_ok_pre {S : Spec} {c c' : Cfg} (h : runCfg S c = .ok c') : runStmts S.pre c = .ok c' := by
  unfold runCfg at h
  cases h1 : runStmts S.pre c with
  | error o => simp [h1] at h
  | ok c1 =>
    simp only [h1] at h
    cases h2 : validate S.rules c1 with
    | accept =>
      simp only [h2] at h
      cases h3 : runStmts S.post c1 with
      | error o => simp [h3] at h
      | ok c2 => simp only [h3, Except.ok.injEq] at h; rw [h]
    | reject t => simp [h2] at h
    | raise k => simp [h2] at h

theorem run_accept_iff_runCfg (S : Spec) (c : Cfg) : run S c = .accept ↔ ∃ c', runCfg S c = .ok c' := by
  unfold run
  cases h : runCfg S c with
  | ok c' => simp
  | error o =>
    simp only [reduceCtorEq, exists_false, iff_false]
    intro ho
    subst ho
    unfold runCfg at h
    cases h1 : runStmts S.pre c with
    | error o => simp only [h1, Except.error.injEq] at h; subst h; exact runStmts_error_ne_accept _ _ h1
    | ok c1 =>
      simp only [h1] at h
      cases h2 : validate S.rules c1 with
      | accept =>
        simp only [h2] at h
        cases h3 : runStmts S.post c1 with
        | error o => simp only [h3, Except.error.injEq] at h; subst h; exact runStmts_error_ne_accept _ _ h3
        | ok c2 => simp [h3] at h
      | reject t => simp [h2] at h
      | raise k => simp [h2] at h


/-! ### covering arrays -/

def levels (fs : List (String × List String)) : List Nat := fs.map (·.2.length)

/-- every row has one in-range value index per option -/
def wellFormed (lv : List Nat) (rows : List (List Nat)) : Bool :=
  rows.all fun r => r.length == lv.length && (List.zip r lv).all fun p => decide (p.1 < p.2)

def coversPair (rows : List (List Nat)) (i j a b : Nat) : Bool :=
  rows.any fun r => r[i]? == some a && r[j]? == some b

def coversAllPairs (lv : List Nat) (rows : List (List Nat)) : Bool :=
  (List.range lv.length).all fun i => (List.range lv.length).all fun j =>
    !decide (i < j) ||
      match lv[i]?, lv[j]? with
      | some ni, some nj => (List.range ni).all fun a => (List.range nj).all fun b => coversPair rows i j a b
      | _, _ => false

def coversTriple (rows : List (List Nat)) (i j k a b c : Nat) : Bool :=
  rows.any fun r => r[i]? == some a && r[j]? == some b && r[k]? == some c

def coversAllTriples (lv : List Nat) (rows : List (List Nat)) : Bool :=
  (List.range lv.length).all fun i => (List.range lv.length).all fun j => (List.range lv.length).all fun k =>
    !(decide (i < j) && decide (j < k)) ||
      match lv[i]?, lv[j]?, lv[k]? with
      | some ni, some nj, some nk =>
        (List.range ni).all fun a => (List.range nj).all fun b => (List.range nk).all fun c => coversTriple rows i j k a b c
      | _, _, _ => false

theorem coversAllPairs_sound (lv : List Nat) (rows : List (List Nat)) (h : coversAllPairs lv rows = true)
    (i j a b : Nat) (hij : i < j) (hj : j < lv.length) (ha : a < lv[i]'(by omega)) (hb : b < lv[j]) :
    ∃ r ∈ rows, r[i]? = some a ∧ r[j]? = some b := by
  have hi : i < lv.length := by omega
  simp only [coversAllPairs, List.all_eq_true, List.mem_range] at h
  have h1 := h i hi j hj
  simp only [hij, decide_true, Bool.not_true, Bool.false_or, List.getElem?_eq_getElem hi, List.getElem?_eq_getElem hj,
    List.all_eq_true, List.mem_range] at h1
  have h2 := h1 a ha b hb
  simp only [coversPair, List.any_eq_true, Bool.and_eq_true, beq_iff_eq] at h2
  exact h2

theorem coversAllTriples_sound (lv : List Nat) (rows : List (List Nat)) (h : coversAllTriples lv rows = true)
    (i j k a b c : Nat) (hij : i < j) (hjk : j < k) (hk : k < lv.length)
    (ha : a < lv[i]'(by omega)) (hb : b < lv[j]'(by omega)) (hc : c < lv[k]) :
    ∃ r ∈ rows, r[i]? = some a ∧ r[j]? = some b ∧ r[k]? = some c := by
  have hi : i < lv.length := by omega
  have hj : j < lv.length := by omega
  simp only [coversAllTriples, List.all_eq_true, List.mem_range] at h
  have h1 := h i hi j hj k hk
  simp only [hij, hjk, decide_true, Bool.and_self, Bool.not_true, Bool.false_or, List.getElem?_eq_getElem hi,
    List.getElem?_eq_getElem hj, List.getElem?_eq_getElem hk, List.all_eq_true, List.mem_range] at h1
  have h2 := h1 a ha b hb c hc
  simp only [coversTriple, List.any_eq_true, Bool.and_eq_true, beq_iff_eq] at h2
  obtain ⟨r, hr, ⟨h3, h4⟩, h5⟩ := h2
  exact ⟨r, hr, h3, h4, h5⟩

end Model.ConfigSpec
