import Mathlib.Analysis.SpecialFunctions.Pow.Real
import Mathlib.Algebra.BigOperators.Field
import Mathlib.Algebra.BigOperators.Fin
import Mathlib.Algebra.Order.BigOperators.Group.Finset
import Mathlib.Algebra.Order.BigOperators.Group.List
import Mathlib.Tactic
/-
  Multiple-importance-sampling (balance heuristic) algebra on a finite state space (used by C01 and C02).

  `Ω` finite, prior mass `p ≥ 0` (not necessarily normalised: on a target with a hard likelihood cut-off `Ω` is the
  finite-likelihood region and `Σ p` its prior mass), likelihood `L`, tempered mass `γ_β = p · L^β`, `Z_β = Σ γ_β`,
  `π_β = γ_β / Z_β`.  Batch `t` has size `n t`, temperature `bt t`.  No property statements here.
-/
namespace Lemmas.MIS
open Finset

variable {Ω T : Type} [Fintype Ω] [Fintype T]

/-- `γ_β(x) = p(x) · L(x)^β` -/
noncomputable def gam (p L : Ω → ℝ) (b : ℝ) (x : Ω) : ℝ := p x * L x ^ b

/-- `Z_β = Σ_x γ_β(x)` -/
noncomputable def Zf (p L : Ω → ℝ) (b : ℝ) : ℝ := ∑ x, gam p L b x

/-- `π_β = γ_β / Z_β` -/
noncomputable def piB (p L : Ω → ℝ) (b : ℝ) (x : Ω) : ℝ := gam p L b x / Zf p L b

/-- the mixture in the denominator of the weight: `Σ_t (n_t/N) · L(x)^{β_t} / Z_{β_t}` -/
noncomputable def den (p L : Ω → ℝ) (n bt : T → ℝ) (x : Ω) : ℝ :=
  ∑ t, (n t / ∑ s, n s) * (L x ^ bt t / Zf p L (bt t))

/-- the linear-space weight of `compute_logw_and_logz`: `w(x) = L(x)^β / Σ_t (n_t/N) L(x)^{β_t}/Z_{β_t}` -/
noncomputable def misW (p L : Ω → ℝ) (n bt : T → ℝ) (β : ℝ) (x : Ω) : ℝ := L x ^ β / den p L n bt x

/-- the pool law `m = Σ_t (n_t/N) π_{β_t}` -/
noncomputable def pool (p L : Ω → ℝ) (n bt : T → ℝ) (x : Ω) : ℝ := ∑ t, (n t / ∑ s, n s) * piB p L (bt t) x

omit [Fintype Ω] in
theorem gam_nonneg (p L : Ω → ℝ) (hp : ∀ x, 0 ≤ p x) (hL : ∀ x, 0 ≤ L x) (b : ℝ) (x : Ω) : 0 ≤ gam p L b x :=
  mul_nonneg (hp x) (Real.rpow_nonneg (hL x) b)

theorem Zf_nonneg (p L : Ω → ℝ) (hp : ∀ x, 0 ≤ p x) (hL : ∀ x, 0 ≤ L x) (b : ℝ) : 0 ≤ Zf p L b :=
  Finset.sum_nonneg fun x _ => gam_nonneg p L hp hL b x

theorem Zf_pos (p L : Ω → ℝ) (hp : ∀ x, 0 ≤ p x) (hp1 : ∃ x, 0 < p x) (hL : ∀ x, 0 < L x) (b : ℝ) :
    0 < Zf p L b := by
  obtain ⟨x0, hx0⟩ := hp1
  apply Finset.sum_pos'
  · intro x _; exact gam_nonneg p L hp (fun x => (hL x).le) b x
  · exact ⟨x0, Finset.mem_univ _, mul_pos hx0 (Real.rpow_pos_of_pos (hL x0) b)⟩

/-- at β = 0 the normaliser is the prior mass, whatever `L` is (`0^0 = 1`) -/
theorem Zf_zero (p L : Ω → ℝ) : Zf p L 0 = ∑ x, p x := by simp [Zf, gam]

theorem exists_pos_of_sum_pos (n : T → ℝ) (hN : 0 < ∑ s, n s) : ∃ t, 0 < n t := by
  by_contra h
  simp only [not_exists, not_lt] at h
  have : ∑ s, n s ≤ 0 := Finset.sum_nonpos fun s _ => h s
  linarith

/-- the mixture is positive when the likelihood is positive -/
theorem den_pos (p L : Ω → ℝ) (n bt : T → ℝ) (hn : ∀ t, 0 ≤ n t) (hN : 0 < ∑ s, n s) (hL : ∀ x, 0 < L x)
    (hZ : ∀ t, 0 < Zf p L (bt t)) (x : Ω) : 0 < den p L n bt x := by
  obtain ⟨t0, ht0⟩ := exists_pos_of_sum_pos n hN
  apply Finset.sum_pos'
  · intro t _
    exact mul_nonneg (div_nonneg (hn t) hN.le) (div_nonneg (Real.rpow_nonneg (hL x).le _) (hZ t).le)
  · exact ⟨t0, Finset.mem_univ _, mul_pos (div_pos ht0 hN) (div_pos (Real.rpow_pos_of_pos (hL x) _) (hZ t0))⟩

/-- … and, with a likelihood that may vanish, as soon as ONE batch has `β_t = 0` (prior law) -/
theorem den_pos_of_beta_zero (p L : Ω → ℝ) (n bt : T → ℝ) (hn : ∀ t, 0 ≤ n t) (hp : ∀ x, 0 ≤ p x)
    (hp1 : ∃ x, 0 < p x) (hL : ∀ x, 0 ≤ L x) (t0 : T) (hb0 : bt t0 = 0) (hn0 : 0 < n t0) (x : Ω) :
    0 < den p L n bt x := by
  have hN : 0 < ∑ s, n s :=
    Finset.sum_pos' (fun s _ => hn s) ⟨t0, Finset.mem_univ _, hn0⟩
  have hZ0 : 0 < Zf p L 0 := by
    rw [Zf_zero]
    obtain ⟨x0, hx0⟩ := hp1
    exact Finset.sum_pos' (fun x _ => hp x) ⟨x0, Finset.mem_univ _, hx0⟩
  apply Finset.sum_pos'
  · intro t _
    exact mul_nonneg (div_nonneg (hn t) hN.le)
      (div_nonneg (Real.rpow_nonneg (hL x) _) (Zf_nonneg p L hp hL _))
  · refine ⟨t0, Finset.mem_univ _, ?_⟩
    rw [hb0, Real.rpow_zero]
    exact mul_pos (div_pos hn0 hN) (div_pos one_pos hZ0)

/-- the pool law is `p · den` -/
theorem pool_eq (p L : Ω → ℝ) (n bt : T → ℝ) (x : Ω) : pool p L n bt x = p x * den p L n bt x := by
  simp only [pool, den, piB, gam, Finset.mul_sum]
  refine Finset.sum_congr rfl fun t _ => ?_
  ring

/-- pointwise form of the balance-heuristic identity: pool law × weight = `γ_β` (on the prior's support the mixture
    must not vanish; off the support both sides are 0) -/
theorem pool_mul_misW (p L : Ω → ℝ) (n bt : T → ℝ) (β : ℝ) (x : Ω)
    (hden : p x ≠ 0 → den p L n bt x ≠ 0) :
    pool p L n bt x * misW p L n bt β x = gam p L β x := by
  rw [pool_eq, misW, gam]
  by_cases hpx : p x = 0
  · simp [hpx]
  · have := hden hpx
    field_simp

/-- balance-heuristic identity, expectation form -/
theorem mis_core (p L : Ω → ℝ) (n bt : T → ℝ) (β : ℝ) (f : Ω → ℝ)
    (hden : ∀ x, p x ≠ 0 → den p L n bt x ≠ 0) :
    ∑ t, (n t / ∑ s, n s) * ∑ x, piB p L (bt t) x * (f x * misW p L n bt β x) = ∑ x, gam p L β x * f x := by
  simp_rw [Finset.mul_sum]
  rw [Finset.sum_comm]
  refine Finset.sum_congr rfl fun x _ => ?_
  rw [← pool_mul_misW p L n bt β x (hden x), pool, Finset.sum_mul, Finset.sum_mul]
  refine Finset.sum_congr rfl fun t _ => ?_
  ring

/-! ### mean-field (infinite-particle) recursion on laws over `Ω` -/

/-- one committed batch of the mean-field recursion: size, temperature, law of its particles, recorded normaliser
    (linear space: `z = exp(logz)`) -/
structure MBatch (Ω : Type) where
  n : ℝ
  beta : ℝ
  law : Ω → ℝ
  z : ℝ

/-- the batch is what the idealised algorithm should hold: particles distributed as `π_{β_t}`, normaliser `Z_{β_t}` -/
def Exact (p L : Ω → ℝ) (b : MBatch Ω) : Prop := 0 < b.n ∧ b.law = piB p L b.beta ∧ b.z = Zf p L b.beta

def poolN (h : List (MBatch Ω)) : ℝ := (h.map (·.n)).sum

/-- pool law `m = Σ_t (n_t/N) q_t` -/
noncomputable def poolLaw (h : List (MBatch Ω)) (x : Ω) : ℝ := (h.map fun b => b.n / poolN h * b.law x).sum

/-- `Σ_t (n_t/N) L^{β_t}/z_t` with the RECORDED normalisers -/
noncomputable def mfDen (L : Ω → ℝ) (h : List (MBatch Ω)) (x : Ω) : ℝ :=
  (h.map fun b => b.n / poolN h * (L x ^ b.beta / b.z)).sum

noncomputable def mfW (L : Ω → ℝ) (h : List (MBatch Ω)) (β : ℝ) (x : Ω) : ℝ := L x ^ β / mfDen L h x

/-- evidence functional: mean unnormalised weight under the pool law -/
noncomputable def mfZ (L : Ω → ℝ) (h : List (MBatch Ω)) (β : ℝ) : ℝ := ∑ x, poolLaw h x * mfW L h β x

/-- the law the resampler draws from: pool law reweighted and normalised -/
noncomputable def mfReweighted (L : Ω → ℝ) (h : List (MBatch Ω)) (β : ℝ) (x : Ω) : ℝ :=
  poolLaw h x * mfW L h β x / mfZ L h β

/-- reweight at β, resample, mutate with `K`, commit `n` particles -/
noncomputable def mfStep (L : Ω → ℝ) (h : List (MBatch Ω)) (β : ℝ) (K : Ω → Ω → ℝ) (n : ℝ) : List (MBatch Ω) :=
  h ++ [⟨n, β, fun y => ∑ x, mfReweighted L h β x * K x y, mfZ L h β⟩]

noncomputable def mfRun (L : Ω → ℝ) : List (MBatch Ω) → List (ℝ × (Ω → Ω → ℝ) × ℝ) → List (MBatch Ω)
  | h, [] => h
  | h, (β, K, n) :: rest => mfRun L (mfStep L h β K n) rest

theorem poolN_pos (p L : Ω → ℝ) (h : List (MBatch Ω)) (hne : h ≠ []) (hex : ∀ b ∈ h, Exact p L b) :
    0 < poolN h := by
  unfold poolN
  apply List.sum_pos
  · intro a ha
    rw [List.mem_map] at ha
    obtain ⟨b, hb, rfl⟩ := ha
    exact (hex b hb).1
  · simpa using hne

theorem mfDen_pos (p L : Ω → ℝ) (hp : ∀ x, 0 ≤ p x) (hp1 : ∃ x, 0 < p x) (hL : ∀ x, 0 < L x)
    (h : List (MBatch Ω)) (hne : h ≠ []) (hex : ∀ b ∈ h, Exact p L b) (x : Ω) : 0 < mfDen L h x := by
  have hN := poolN_pos p L h hne hex
  unfold mfDen
  apply List.sum_pos
  · intro a ha
    rw [List.mem_map] at ha
    obtain ⟨b, hb, rfl⟩ := ha
    obtain ⟨hn, _, hz⟩ := hex b hb
    rw [hz]
    exact mul_pos (div_pos hn hN) (div_pos (Real.rpow_pos_of_pos (hL x) _) (Zf_pos p L hp hp1 hL _))
  · simpa using hne

/-- for an exact history the pool law is `p · mfDen` … -/
theorem poolLaw_eq (p L : Ω → ℝ) (h : List (MBatch Ω)) (hex : ∀ b ∈ h, Exact p L b) (x : Ω) :
    poolLaw h x = p x * mfDen L h x := by
  unfold poolLaw mfDen
  rw [← List.sum_map_mul_left]
  congr 1
  apply List.map_congr_left
  intro b hb
  obtain ⟨_, hl, hz⟩ := hex b hb
  rw [hl, hz, piB, gam]
  ring

/-- … hence pool law × weight is `γ_β` exactly -/
theorem poolLaw_mul_mfW (p L : Ω → ℝ) (hp : ∀ x, 0 ≤ p x) (hp1 : ∃ x, 0 < p x) (hL : ∀ x, 0 < L x)
    (h : List (MBatch Ω)) (hne : h ≠ []) (hex : ∀ b ∈ h, Exact p L b) (β : ℝ) (x : Ω) :
    poolLaw h x * mfW L h β x = gam p L β x := by
  have hd := (mfDen_pos p L hp hp1 hL h hne hex x).ne'
  rw [poolLaw_eq p L h hex, mfW, gam]
  field_simp

/-- `K` leaves `π` invariant -/
def Invariant (π : Ω → ℝ) (K : Ω → Ω → ℝ) : Prop := ∀ y, ∑ x, π x * K x y = π y

theorem mfZ_exact (p L : Ω → ℝ) (hp : ∀ x, 0 ≤ p x) (hp1 : ∃ x, 0 < p x) (hL : ∀ x, 0 < L x)
    (h : List (MBatch Ω)) (hne : h ≠ []) (hex : ∀ b ∈ h, Exact p L b) (β : ℝ) : mfZ L h β = Zf p L β := by
  unfold mfZ Zf
  exact Finset.sum_congr rfl fun x _ => poolLaw_mul_mfW p L hp hp1 hL h hne hex β x

theorem mfReweighted_exact (p L : Ω → ℝ) (hp : ∀ x, 0 ≤ p x) (hp1 : ∃ x, 0 < p x) (hL : ∀ x, 0 < L x)
    (h : List (MBatch Ω)) (hne : h ≠ []) (hex : ∀ b ∈ h, Exact p L b) (β : ℝ) :
    mfReweighted L h β = piB p L β := by
  funext x
  rw [mfReweighted, poolLaw_mul_mfW p L hp hp1 hL h hne hex β x, mfZ_exact p L hp hp1 hL h hne hex β, piB]

theorem mfStep_exact (p L : Ω → ℝ) (hp : ∀ x, 0 ≤ p x) (hp1 : ∃ x, 0 < p x) (hL : ∀ x, 0 < L x)
    (h : List (MBatch Ω)) (hne : h ≠ []) (hex : ∀ b ∈ h, Exact p L b) (β : ℝ) (K : Ω → Ω → ℝ)
    (hK : Invariant (piB p L β) K) (n : ℝ) (hn : 0 < n) : ∀ b ∈ mfStep L h β K n, Exact p L b := by
  intro b hb
  simp only [mfStep, List.mem_append, List.mem_singleton] at hb
  rcases hb with hb | rfl
  · exact hex b hb
  · refine ⟨hn, ?_, mfZ_exact p L hp hp1 hL h hne hex β⟩
    funext y
    simp only
    rw [mfReweighted_exact p L hp hp1 hL h hne hex β]
    exact hK y

theorem mfRun_exact (p L : Ω → ℝ) (hp : ∀ x, 0 ≤ p x) (hp1 : ∃ x, 0 < p x) (hL : ∀ x, 0 < L x)
    (steps : List (ℝ × (Ω → Ω → ℝ) × ℝ)) : ∀ (h : List (MBatch Ω)), h ≠ [] → (∀ b ∈ h, Exact p L b) →
    (∀ st ∈ steps, Invariant (piB p L st.1) st.2.1 ∧ 0 < st.2.2) → ∀ b ∈ mfRun L h steps, Exact p L b := by
  induction steps with
  | nil => intro h _ hex _; simpa [mfRun] using hex
  | cons st rest ih =>
    intro h hne hex hst
    obtain ⟨β, K, n⟩ := st
    obtain ⟨hK, hn⟩ := hst (β, K, n) (by simp)
    simp only [mfRun]
    apply ih
    · simp [mfStep]
    · exact mfStep_exact p L hp hp1 hL h hne hex β K hK n hn
    · intro st' hst'; exact hst st' (by simp [hst'])

end Lemmas.MIS
