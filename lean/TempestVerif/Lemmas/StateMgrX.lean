import TempestVerif.Model.StateMgrX
import TempestVerif.Lemmas.StateMgr
/-
  Lemmas about the composite accessors / run shapes of `Model/StateMgrX.lean` (C17).  Core Lean only.
-/
namespace Model.StateMgr

/-! ### runs -/

theorem run_append (s : State) (a b : List Op) : run s (a ++ b) = run (run s a) b := by
  induction a generalizing s with
  | nil => rfl
  | cons o os ih => simp only [List.cons_append, run]; exact ih _

theorem isBody_spec {o : Op} (h : o.isBody = true) : o.isCommit = false ∧ o.isImport = false := by
  cases o <;> simp_all [Op.isBody, Op.isCommit, Op.isImport]

theorem run_history_eq (ops : List Op) (s : State) (h : ∀ o ∈ ops, o.isBody = true) :
    (run s ops).history = s.history := by
  induction ops generalizing s with
  | nil => rfl
  | cons o os ih =>
    have hb := isBody_spec (h o (by simp))
    simp only [run]
    rw [ih _ (fun x hx => h x (List.mem_cons_of_mem _ hx)), step_history_eq s o hb.1 hb.2]

/-! ### payload of copies -/

theorem copyList_deref (h : Heap) (l : List Val) (hv : ∀ b : Nat, b ∈ listAddrs l → b < h.length) :
    (copyList h l).2.map (deref (copyList h l).1) = l.map (deref h) := by
  induction l generalizing h with
  | nil => rfl
  | cons v vs ih =>
    simp only [copyList, List.map_cons]
    have e1 := copyVal_ext h v
    have e2 := copyList_ext (copyVal h v).1 vs
    have hvs : ∀ b : Nat, b ∈ listAddrs vs → b < (copyVal h v).1.length := fun b hb => by
      have := hv b (by simp only [listAddrs, List.flatMap_cons, List.mem_append]; exact Or.inr hb)
      have := e1.le
      omega
    have hhead : deref (copyList (copyVal h v).1 vs).1 (copyVal h v).2 = deref h v := by
      rw [deref_ext e2 (fun b hb => (copyVal_fresh hb).2), copyVal_deref]
    rw [hhead, ih _ hvs]
    congr 1
    exact derefList_ext e1 (fun b hb => hv b (by simp only [listAddrs, List.flatMap_cons, List.mem_append]; exact Or.inr hb))

theorem copyDict_deref (h : Heap) (d : List (Key × Val)) (hv : ∀ b : Nat, b ∈ dictAddrs d → b < h.length) :
    derefDict (copyDict h d).1 (copyDict h d).2 = derefDict h d := by
  induction d generalizing h with
  | nil => rfl
  | cons kv r ih =>
    obtain ⟨k, v⟩ := kv
    simp only [copyDict, derefDict, List.map_cons]
    have e1 := copyVal_ext h v
    have e2 := copyDict_ext (copyVal h v).1 r
    have hr : ∀ b : Nat, b ∈ dictAddrs r → b < h.length := fun b hb =>
      hv b (by simp only [dictAddrs, List.flatMap_cons, List.mem_append]; exact Or.inr hb)
    have hr1 : ∀ b : Nat, b ∈ dictAddrs r → b < (copyVal h v).1.length := fun b hb => by
      have := hr b hb
      have := e1.le
      omega
    have hhead : deref (copyDict (copyVal h v).1 r).1 (copyVal h v).2 = deref h v := by
      rw [deref_ext e2 (fun b hb => (copyVal_fresh hb).2), copyVal_deref]
    have htail := ih _ hr1
    simp only [derefDict] at htail
    rw [hhead, htail]
    congr 1
    apply List.map_congr_left
    intro kv hm
    have : ∀ b : Nat, b ∈ kv.2.addrs → b < h.length := fun b hb =>
      hr b (mem_dictAddrs.2 ⟨kv.1, by rw [← mem_addrs_ref.1 hb]; exact hm⟩)
    simp [deref_ext e1 this]

theorem derefHist_ext {h h' : Heap} {d : List (Key × List Val)} (e : Ext h h')
    (hv : ∀ b : Nat, b ∈ histAddrs d → b < h.length) : derefHist h' d = derefHist h d := by
  apply List.map_congr_left
  intro kv hm
  have : ∀ b : Nat, b ∈ listAddrs kv.2 → b < h.length := fun b hb =>
    hv b (mem_histAddrs.2 ⟨kv.1, kv.2, hm, mem_listAddrs.1 hb⟩)
  simp [derefList_ext e this]

theorem derefDict_ext {h h' : Heap} {d : List (Key × Val)} (e : Ext h h')
    (hv : ∀ b : Nat, b ∈ dictAddrs d → b < h.length) : derefDict h' d = derefDict h d := by
  apply List.map_congr_left
  intro kv hm
  have : ∀ b : Nat, b ∈ kv.2.addrs → b < h.length := fun b hb =>
    hv b (mem_dictAddrs.2 ⟨kv.1, by rw [← mem_addrs_ref.1 hb]; exact hm⟩)
  simp [deref_ext e this]

theorem copyHist_deref (h : Heap) (d : List (Key × List Val)) (hv : ∀ b : Nat, b ∈ histAddrs d → b < h.length) :
    derefHist (copyHist h d).1 (copyHist h d).2 = derefHist h d := by
  induction d generalizing h with
  | nil => rfl
  | cons kv r ih =>
    obtain ⟨k, l⟩ := kv
    simp only [copyHist, derefHist, List.map_cons]
    have e1 := copyList_ext h l
    have e2 := copyHist_ext (copyList h l).1 r
    have hl : ∀ b : Nat, b ∈ listAddrs l → b < h.length := fun b hb =>
      hv b (by simp only [histAddrs, List.flatMap_cons, List.mem_append]; exact Or.inl hb)
    have hr : ∀ b : Nat, b ∈ histAddrs r → b < h.length := fun b hb =>
      hv b (by simp only [histAddrs, List.flatMap_cons, List.mem_append]; exact Or.inr hb)
    have hr1 : ∀ b : Nat, b ∈ histAddrs r → b < (copyList h l).1.length := fun b hb => by
      have := hr b hb
      have := e1.le
      omega
    have hhead : (copyList h l).2.map (deref (copyHist (copyList h l).1 r).1) = l.map (deref h) := by
      rw [derefList_ext e2 (fun b hb => (copyList_fresh hb).2), copyList_deref h l hl]
    have htail := ih _ hr1
    simp only [derefHist] at htail
    rw [hhead, htail]
    congr 1
    exact derefHist_ext e1 hr

/-! ### read-only transitions (accessors and library-side allocations) -/

/-- `t` is `s` after calls that only allocate arrays for the caller: the manager's dictionaries are untouched -/
structure RO (s t : State) : Prop where
  cur : t.current = s.current
  hist : t.history = s.history
  cache : t.cache = s.cache
  imp : t.imported = s.imported
  ext : Ext s.heap t.heap
  escMono : ∀ a : Nat, a ∈ s.escaped → a ∈ t.escaped
  escNew : ∀ a : Nat, a ∈ t.escaped → a ∈ s.escaped ∨ (s.heap.length ≤ a ∧ a < t.heap.length)

theorem RO.refl (s : State) : RO s s := ⟨rfl, rfl, rfl, rfl, Ext.refl _, fun _ h => h, fun _ h => Or.inl h⟩

theorem RO.trans {s t u : State} (a : RO s t) (b : RO t u) : RO s u := by
  refine ⟨b.cur.trans a.cur, b.hist.trans a.hist, b.cache.trans a.cache, b.imp.trans a.imp, a.ext.trans b.ext,
    fun x hx => b.escMono x (a.escMono x hx), fun x hx => ?_⟩
  have l1 := a.ext.le
  have l2 := b.ext.le
  rcases b.escNew x hx with h | h
  · rcases a.escNew x h with h' | h'
    · exact Or.inl h'
    · exact Or.inr ⟨h'.1, by omega⟩
  · exact Or.inr ⟨by omega, h.2⟩

theorem RO.reach_eq {s t : State} (r : RO s t) : reach t = reach s := by
  unfold reach; rw [r.cur, r.hist, r.cache]

theorem RO.inv {s t : State} (r : RO s t) (hI : Inv s) : Inv t := by
  refine hI.of_step r.ext r.escNew (fun a h => by rw [r.imp]; exact h) (fun a ha => Or.inl (by rw [← r.cur]; exact ha))
    (fun a ha => Or.inl (by rw [← r.hist, ← r.cache]; exact ha))

/-- a value handed out between `s` and `t`: allocated after `s`, held by the caller in `t` -/
def OK (s t : State) (v : Val) : Prop := ∀ b : Nat, b ∈ v.addrs → s.heap.length ≤ b ∧ b ∈ t.escaped

theorem OK.mono {s t u : State} {v : Val} (h : OK s t v) (r : RO t u) : OK s u v := fun b hb =>
  ⟨(h b hb).1, r.escMono b (h b hb).2⟩

theorem OK.none (s t : State) : OK s t Val.none := fun b hb => by simp [Val.addrs] at hb

theorem ro_alloc (s : State) (p : Option Content) : RO s (stepX s (.alloc p)).1 := by
  refine ⟨rfl, rfl, rfl, rfl, Ext.snoc _ _, fun a h => List.mem_cons_of_mem _ h, fun a h => ?_⟩
  simp only [stepX, List.mem_cons] at h
  rcases h with h | h
  · subst h; exact Or.inr ⟨Nat.le_refl _, by simp [stepX]⟩
  · exact Or.inl h

theorem ok_alloc (s0 s : State) (p : Option Content) (hle : s0.heap.length ≤ s.heap.length) :
    OK s0 (stepX s (.alloc p)).1 (.ref s.heap.length) := fun b hb => by
  simp only [Val.addrs, List.mem_singleton] at hb
  subst hb
  exact ⟨hle, by simp [stepX]⟩

/-- a getter / `compute_logw_and_logz`: read-only, and what it returns is new and held by the caller -/
theorem ro_of_frame {s : State} {o : Op} (hs : o.isScribble = false)
    (hc : (step s o).1.current = s.current) (hh : (step s o).1.history = s.history) (hca : (step s o).1.cache = s.cache)
    (hi : (step s o).1.imported = s.imported)
    (hn : ∀ a : Nat, a ∈ (step s o).1.escaped → a ∈ s.escaped ∨ (s.heap.length ≤ a ∧ a < (step s o).1.heap.length)) :
    RO s (step s o).1 :=
  ⟨hc, hh, hca, hi, step_ext s o hs, step_escaped_mono s o, hn⟩

theorem ro_logw (s : State) (beta : Int) : RO s (step s (.logw beta)).1 := by
  refine ro_of_frame rfl rfl rfl rfl rfl (fun a h => ?_)
  simp only [step, List.mem_cons] at h
  rcases h with h | h
  · subst h; exact Or.inr ⟨Nat.le_refl _, by simp [step]⟩
  · exact Or.inl h

theorem escNew_of_fresh {s : State} {h' : Heap} {new : List Addr} (hf : ∀ a : Nat, a ∈ new → s.heap.length ≤ a ∧ a < h'.length)
    (a : Nat) (ha : a ∈ new ++ s.escaped) : a ∈ s.escaped ∨ (s.heap.length ≤ a ∧ a < h'.length) := by
  rcases List.mem_append.1 ha with h | h
  · exact Or.inr (hf a h)
  · exact Or.inl h

theorem ro_getHistoryFlat (s : State) (k : Key) : RO s (step s (.getHistory k none true)).1 := by
  simp only [step]
  split
  · exact RO.refl _
  · split
    · exact RO.refl _
    · split
      · exact RO.refl _
      · refine ⟨rfl, rfl, rfl, rfl, Ext.snoc _ _, fun a h => List.mem_cons_of_mem _ h, fun a h => ?_⟩
        simp only [List.mem_cons] at h
        rcases h with h | h
        · subst h; exact Or.inr ⟨Nat.le_refl _, by simp⟩
        · exact Or.inl h

theorem ro_getCurrent (s : State) (k : Key) : RO s (step s (.getCurrent (some k))).1 := by
  simp only [step]
  split
  · exact RO.refl _
  · split
    · exact RO.refl _
    · rename_i v _
      exact ⟨rfl, rfl, rfl, rfl, copyVal_ext _ _, fun a h => List.mem_append_right _ h,
        escNew_of_fresh (fun a ha => copyVal_fresh ha)⟩

theorem ok_step (s0 s : State) (o : Op) (hle : s0.heap.length ≤ s.heap.length) : OK s0 (step s o).1 (step s o).2.valOf := by
  intro b hb
  cases hr : (step s o).2 with
  | val v =>
    rw [hr] at hb
    simp only [Res.valOf] at hb
    have hb' : b ∈ (step s o).2.addrs := by rw [hr]; exact hb
    have h1 := step_res_fresh s o b hb'
    exact ⟨by omega, step_res_escaped s o b hb'⟩
  | unit => rw [hr] at hb; simp [Res.valOf, Val.addrs] at hb
  | dict d => rw [hr] at hb; simp [Res.valOf, Val.addrs] at hb
  | «export» c h => rw [hr] at hb; simp [Res.valOf, Val.addrs] at hb
  | err e => rw [hr] at hb; simp [Res.valOf, Val.addrs] at hb

theorem ro_gather1 (s : State) (v : Val) : RO s (gather1 s v).1 := by
  cases v with
  | none => exact RO.refl _
  | scalar x => exact RO.refl _
  | ref a => exact ro_alloc s none

theorem ok_gather1 (s0 s : State) (v : Val) (hle : s0.heap.length ≤ s.heap.length) (hv : OK s0 s v) :
    OK s0 (gather1 s v).1 (gather1 s v).2 := by
  cases v with
  | none => exact OK.none _ _
  | scalar x => exact fun b hb => by simp [gather1, Val.addrs] at hb
  | ref a => exact ok_alloc s0 s none hle

/-- all five carried arrays are new and held by the caller -/
def PostVals.OK (s t : State) (v : PostVals) : Prop :=
  Model.StateMgr.OK s t v.u ∧ Model.StateMgr.OK s t v.x ∧ Model.StateMgr.OK s t v.logl ∧
  Model.StateMgr.OK s t v.logw ∧ Model.StateMgr.OK s t v.blobs

theorem PostVals.OK.mono {s t u : State} {v : PostVals} (h : PostVals.OK s t v) (r : RO t u) : PostVals.OK s u v :=
  ⟨h.1.mono r, h.2.1.mono r, h.2.2.1.mono r, h.2.2.2.1.mono r, h.2.2.2.2.mono r⟩

theorem ro_gather (s : State) (v : PostVals) : RO s (gather s v).1 := by
  simp only [gather]
  exact (ro_gather1 _ _).trans ((ro_gather1 _ _).trans ((ro_gather1 _ _).trans ((ro_gather1 _ _).trans (ro_gather1 _ _))))

theorem ok_gather (s0 s : State) (v : PostVals) (hle : s0.heap.length ≤ s.heap.length) (hv : PostVals.OK s0 s v) :
    PostVals.OK s0 (gather s v).1 (gather s v).2 := by
  simp only [gather]
  have r1 := ro_gather1 s v.u
  have r2 := ro_gather1 (gather1 s v.u).1 v.x
  have r3 := ro_gather1 (gather1 (gather1 s v.u).1 v.x).1 v.logl
  have r4 := ro_gather1 (gather1 (gather1 (gather1 s v.u).1 v.x).1 v.logl).1 v.logw
  have r5 := ro_gather1 (gather1 (gather1 (gather1 (gather1 s v.u).1 v.x).1 v.logl).1 v.logw).1 v.blobs
  have l1 := r1.ext.le
  have l2 := r2.ext.le
  have l3 := r3.ext.le
  have l4 := r4.ext.le
  refine ⟨?_, ?_, ?_, ?_, ?_⟩
  · exact (ok_gather1 s0 s v.u hle hv.1).mono (r2.trans (r3.trans (r4.trans r5)))
  · exact (ok_gather1 s0 _ v.x (by omega) (hv.2.1.mono r1)).mono (r3.trans (r4.trans r5))
  · exact (ok_gather1 s0 _ v.logl (by omega) (hv.2.2.1.mono (r1.trans r2))).mono (r4.trans r5)
  · exact (ok_gather1 s0 _ v.logw (by omega) (hv.2.2.2.1.mono (r1.trans (r2.trans r3)))).mono r5
  · exact ok_gather1 s0 _ v.blobs (by omega) (hv.2.2.2.2.mono (r1.trans (r2.trans (r3.trans r4))))

theorem postTuple_addrs {o : PostOpts} {v : PostVals} {w : Val} {b : Nat} (hb : b ∈ dictAddrs (postTuple o v w)) :
    b ∈ v.x.addrs ∨ b ∈ w.addrs ∨ b ∈ v.logl.addrs ∨ b ∈ v.blobs.addrs ∨ b ∈ v.logw.addrs := by
  simp only [postTuple, dictAddrs, List.flatMap_append, List.mem_append, List.flatMap_cons, List.flatMap_nil,
    List.append_nil] at hb
  rcases hb with (hb | hb) | hb
  · rcases hb with hb | hb | hb
    · exact Or.inl hb
    · exact Or.inr (Or.inl hb)
    · exact Or.inr (Or.inr (Or.inl hb))
  · split at hb
    · simp only [List.flatMap_cons, List.flatMap_nil, List.append_nil] at hb
      exact Or.inr (Or.inr (Or.inr (Or.inl hb)))
    · simp at hb
  · split at hb
    · simp only [List.flatMap_cons, List.flatMap_nil, List.append_nil] at hb
      exact Or.inr (Or.inr (Or.inr (Or.inr hb)))
    · simp at hb

/-! ### `compute_posterior` is read-only and returns new, caller-held arrays -/

/-- read-only from `s0`, and every array of the result was allocated after `s0` and is held by the caller -/
def Spec (s0 : State) (q : State × Res) : Prop :=
  RO s0 q.1 ∧ ∀ b : Nat, b ∈ q.2.addrs → s0.heap.length ≤ b ∧ b ∈ q.1.escaped

theorem isErr_addrs {r : Res} (h : r.isErr = true) : r.addrs = [] := by
  cases r <;> simp_all [Res.isErr, Res.addrs]

theorem andThen_spec {s0 : State} {q : State × Res} {k : State → Val → State × Res} (hr : RO s0 q.1)
    (hk : q.2.isErr = false → Spec s0 (k q.1 q.2.valOf)) : Spec s0 (andThen q k) := by
  unfold andThen
  split
  · rename_i he
    exact ⟨hr, fun b hb => by rw [isErr_addrs he] at hb; cases hb⟩
  · rename_i he
    exact hk (by simpa using he)

theorem blobsStage_spec (s0 t : State) (o : PostOpts) (hle : s0.heap.length ≤ t.heap.length) :
    RO t (blobsStage o t).1 ∧ OK s0 (blobsStage o t).1 (blobsStage o t).2.valOf := by
  unfold blobsStage
  by_cases hd : o.blobsDeclared = true
  · simp only [hd, if_true, Res.isErr, Bool.false_eq_true, if_false, Bool.true_or]
    exact ⟨ro_getHistoryFlat _ _, ok_step s0 t _ hle⟩
  · simp only [hd, Bool.false_eq_true, if_false, Bool.false_or]
    have r1 := ro_getCurrent t "blobs"
    have l1 := r1.ext.le
    split
    · exact ⟨r1, ok_step s0 t _ hle⟩
    · split
      · exact ⟨r1.trans (ro_getHistoryFlat _ _), ok_step s0 _ _ (by omega)⟩
      · exact ⟨r1, OK.none _ _⟩

theorem trimStage_spec (s0 t : State) (o : PostOpts) (v : PostVals) (wts : Val) (hle : s0.heap.length ≤ t.heap.length)
    (hv : PostVals.OK s0 t v) (hw : OK s0 t wts) :
    RO t (trimStage o t v wts).1 ∧ PostVals.OK s0 (trimStage o t v wts).1 (trimStage o t v wts).2.1 ∧
      OK s0 (trimStage o t v wts).1 (trimStage o t v wts).2.2 := by
  unfold trimStage
  split
  · have r1 := ro_alloc t none
    have l1 := r1.ext.le
    have r2 := ro_gather (stepX t (.alloc none)).1 v
    exact ⟨r1.trans r2, ok_gather s0 _ v (by omega) (hv.mono r1), (ok_alloc s0 t none hle).mono r2⟩
  · exact ⟨RO.refl _, hv, hw⟩

theorem resampleStage_spec (s0 t : State) (o : PostOpts) (v : PostVals) (wts : Val) (hle : s0.heap.length ≤ t.heap.length)
    (hv : PostVals.OK s0 t v) (hw : OK s0 t wts) :
    RO t (resampleStage o t v wts).1 ∧ PostVals.OK s0 (resampleStage o t v wts).1 (resampleStage o t v wts).2.1 ∧
      OK s0 (resampleStage o t v wts).1 (resampleStage o t v wts).2.2 := by
  unfold resampleStage
  split
  · have r1 := ro_gather t v
    have l1 := r1.ext.le
    have r2 := ro_alloc (gather t v).1 none
    exact ⟨r1.trans r2, (ok_gather s0 t v hle hv).mono r2, ok_alloc s0 _ none (by omega)⟩
  · exact ⟨RO.refl _, hv, hw⟩

theorem postFinish_spec (s0 t : State) (o : PostOpts) (v : PostVals) (wts : Val) (h0 : RO s0 t)
    (hv : PostVals.OK s0 t v) (hw : OK s0 t wts) : Spec s0 (postFinish o t v wts) := by
  have hle := h0.ext.le
  obtain ⟨r1, v1, w1⟩ := trimStage_spec s0 t o v wts hle hv hw
  have l1 := r1.ext.le
  obtain ⟨r2, v2, w2⟩ := resampleStage_spec s0 (trimStage o t v wts).1 o (trimStage o t v wts).2.1 (trimStage o t v wts).2.2
    (by omega) v1 w1
  refine ⟨h0.trans (r1.trans r2), fun b hb => ?_⟩
  simp only [postFinish, Res.addrs] at hb
  rcases postTuple_addrs hb with h | h | h | h | h
  · exact v2.2.1 b h
  · exact w2 b h
  · exact v2.2.2.1 b h
  · exact v2.2.2.2.2 b h
  · exact v2.2.2.2.1 b h

theorem posterior_eq (s : State) (o : PostOpts) :
    posterior s o =
      if rd (step s (.logw 1)).1.heap s.heap.length = some [] then ((step s (.logw 1)).1, .err .valueError) else
      andThen (step (stepX (step s (.logw 1)).1 (.alloc (likeLogw (step s (.logw 1)).1.heap s.heap.length))).1
          (.getHistory "u" none true)) fun s1 u =>
      andThen (step s1 (.getHistory "x" none true)) fun s2 x =>
      andThen (step s2 (.getHistory "logl" none true)) fun s3 l =>
      andThen (blobsStage o s3) fun s4 b =>
      postFinish o s4 { u := u, x := x, logl := l, logw := .ref s.heap.length, blobs := b }
        (.ref (step s (.logw 1)).1.heap.length) := rfl

theorem posterior_spec (s : State) (o : PostOpts) : Spec s (posterior s o) := by
  rw [posterior_eq]
  have r0 := ro_logw s 1
  have l0 := r0.ext.le
  split
  · exact ⟨r0, fun b hb => by simp [Res.addrs] at hb⟩
  · have r1 := r0.trans (ro_alloc (step s (.logw 1)).1 (likeLogw (step s (.logw 1)).1.heap s.heap.length))
    have l1 := r1.ext.le
    have hw : OK s (step s (.logw 1)).1 (.ref s.heap.length) := fun b hb => by
      simp only [Val.addrs, List.mem_singleton] at hb
      subst hb
      exact ⟨Nat.le_refl _, by simp [step]⟩
    have hwts := ok_alloc s (step s (.logw 1)).1 (likeLogw (step s (.logw 1)).1.heap s.heap.length) l0
    have ru := ro_getHistoryFlat (stepX (step s (.logw 1)).1 (.alloc (likeLogw (step s (.logw 1)).1.heap s.heap.length))).1 "u"
    refine andThen_spec (r1.trans ru) (fun _ => ?_)
    have lu := (r1.trans ru).ext.le
    have rx := ro_getHistoryFlat (step (stepX (step s (.logw 1)).1 (.alloc (likeLogw (step s (.logw 1)).1.heap s.heap.length))).1
      (.getHistory "u" none true)).1 "x"
    refine andThen_spec ((r1.trans ru).trans rx) (fun _ => ?_)
    have lx := ((r1.trans ru).trans rx).ext.le
    have rl := ro_getHistoryFlat (step (step (stepX (step s (.logw 1)).1 (.alloc (likeLogw (step s (.logw 1)).1.heap s.heap.length))).1
      (.getHistory "u" none true)).1 (.getHistory "x" none true)).1 "logl"
    refine andThen_spec (((r1.trans ru).trans rx).trans rl) (fun _ => ?_)
    have ll := (((r1.trans ru).trans rx).trans rl).ext.le
    obtain ⟨rb, okb⟩ := blobsStage_spec s (step (step (step (stepX (step s (.logw 1)).1 (.alloc (likeLogw (step s (.logw 1)).1.heap s.heap.length))).1
      (.getHistory "u" none true)).1 (.getHistory "x" none true)).1 (.getHistory "logl" none true)).1 o ll
    refine andThen_spec ((((r1.trans ru).trans rx).trans rl).trans rb) (fun _ => ?_)
    refine postFinish_spec s _ o _ _ ((((r1.trans ru).trans rx).trans rl).trans rb) ⟨?_, ?_, ?_, ?_, ?_⟩ ?_
    · exact (ok_step s _ _ l1).mono ((rx.trans rl).trans rb)
    · exact (ok_step s _ _ lu).mono (rl.trans rb)
    · exact (ok_step s _ _ lx).mono rb
    · exact hw.mono ((((ro_alloc _ _).trans ru).trans rx).trans (rl.trans rb))
    · exact okb
    · exact hwts.mono (((ru.trans rx).trans rl).trans rb)

/-! ### internal state only ever acquires arrays allocated by the operation itself (unless `copy=False`) -/

theorem storeCurrent_reach {s : State} {k : Key} {v : Val} {a : Nat}
    (ha : a ∈ dictAddrs (storeCurrent s k v true).current) : a ∈ dictAddrs s.current ∨ s.heap.length ≤ a := by
  simp only [storeCurrent, if_true] at ha
  rcases dictAddrs_insert ha with h | h
  · exact Or.inl h
  · exact Or.inr (copyVal_fresh h).1

theorem updLoop_reach (kvs : List (Key × Val)) (s : State) {a : Nat}
    (ha : a ∈ dictAddrs (updLoop true kvs s).1.current) : a ∈ dictAddrs s.current ∨ s.heap.length ≤ a := by
  induction kvs generalizing s with
  | nil => exact Or.inl ha
  | cons kv r ih =>
    obtain ⟨k, v⟩ := kv
    simp only [updLoop] at ha
    split at ha
    · rcases ih _ ha with h | h
      · exact storeCurrent_reach h
      · have := (storeCurrent_ext s k v true).le
        exact Or.inr (by omega)
    · exact Or.inl ha

theorem updLoop_cache (copy : Bool) (kvs : List (Key × Val)) (s : State) : (updLoop copy kvs s).1.cache = s.cache := by
  induction kvs generalizing s with
  | nil => rfl
  | cons kv r ih =>
    obtain ⟨k, v⟩ := kv
    simp only [updLoop]
    split
    · rw [ih]; unfold storeCurrent; split <;> rfl
    · rfl

theorem commitLoop_histAddrs (ks : List Key) (s : State) {a : Nat}
    (ha : a ∈ histAddrs (commitLoop ks s).history) : a ∈ histAddrs s.history ∨ s.heap.length ≤ a := by
  induction ks generalizing s with
  | nil => exact Or.inl ha
  | cons k ks ih =>
    simp only [commitLoop] at ha
    split at ha
    · split at ha
      · exact ih s ha
      · rename_i v _ _
        rcases ih _ ha with h | h
        · rcases histAddrs_adjust_snoc h with h1 | h1
          · exact Or.inl h1
          · exact Or.inr (copyVal_fresh h1).1
        · have := (copyVal_ext s.heap v).le
          exact Or.inr (by simp only at h; omega)
    · exact ih s ha

/-- Whatever an operation other than `set_current / update_current(copy=False)` leaves reachable from `_current`,
    `_history` or the results cache was reachable before, or was allocated by that operation. -/
theorem step_reach_new (s : State) (o : Op) (ho : o.optIn = false) (a : Nat) (ha : a ∈ reach (step s o).1) :
    a ∈ reach s ∨ s.heap.length ≤ a := by
  rw [mem_reach] at ha
  cases o with
  | setCurrent k x copy =>
    have hc : copy = true := by cases copy <;> simp_all [Op.optIn]
    subst hc
    simp only [step] at ha
    split at ha
    · exact Or.inl (mem_reach.2 ha)
    · have e1 := (resolveArg_spec s.heap s.escaped x).ext.le
      split at ha
      · exact Or.inl (mem_reach.2 ha)
      · rcases ha with ha | ha | ha
        · rcases storeCurrent_reach ha with h | h
          · exact Or.inl (mem_reach.2 (Or.inl h))
          · exact Or.inr (by simp only at h; omega)
        · simp only [storeCurrent, if_true] at ha
          exact Or.inl (mem_reach.2 (Or.inr (Or.inl ha)))
        · simp [cacheAddrs] at ha
  | updateCurrent kvs copy =>
    have hc : copy = true := by cases copy <;> simp_all [Op.optIn]
    subst hc
    simp only [step] at ha
    split at ha
    · exact Or.inl (mem_reach.2 ha)
    · have e1 := (resolveDict_spec s.heap s.escaped kvs).ext.le
      have key : ∀ x : Nat, x ∈ dictAddrs (updLoop true (resolveDict s.heap s.escaped kvs).2.2
          { s with heap := (resolveDict s.heap s.escaped kvs).1, escaped := (resolveDict s.heap s.escaped kvs).2.1 }).1.current →
          x ∈ reach s ∨ s.heap.length ≤ x := fun x hx => by
        rcases updLoop_reach _ _ hx with h | h
        · exact Or.inl (mem_reach.2 (Or.inl h))
        · exact Or.inr (by simp only at h; omega)
      split at ha
      · rcases ha with ha | ha | ha
        · exact key a ha
        · simp only [updLoop_history] at ha
          exact Or.inl (mem_reach.2 (Or.inr (Or.inl ha)))
        · simp [cacheAddrs] at ha
      · rcases ha with ha | ha | ha
        · exact key a ha
        · simp only [updLoop_history] at ha
          exact Or.inl (mem_reach.2 (Or.inr (Or.inl ha)))
        · simp only [updLoop_cache] at ha
          exact Or.inl (mem_reach.2 (Or.inr (Or.inr ha)))
  | getCurrent k =>
    cases k with
    | some k =>
      simp only [step] at ha
      split at ha
      · exact Or.inl (mem_reach.2 ha)
      · split at ha <;> exact Or.inl (mem_reach.2 ha)
    | none => exact Or.inl (mem_reach.2 ha)
  | getHistory k index flat =>
    simp only [step] at ha
    split at ha
    · exact Or.inl (mem_reach.2 ha)
    · split at ha
      · exact Or.inl (mem_reach.2 ha)
      · split at ha
        · split at ha <;> exact Or.inl (mem_reach.2 ha)
        · split at ha
          · exact Or.inl (mem_reach.2 ha)
          · split at ha <;> exact Or.inl (mem_reach.2 ha)
  | getLastHistory k =>
    simp only [step] at ha
    split at ha
    · exact Or.inl (mem_reach.2 ha)
    · split at ha
      · exact Or.inl (mem_reach.2 ha)
      · split at ha <;> exact Or.inl (mem_reach.2 ha)
  | commit strict =>
    simp only [step] at ha
    split at ha
    · exact Or.inl (mem_reach.2 ha)
    · rcases ha with ha | ha | ha
      · rw [(commitLoop_frame commitKeys s).1] at ha
        exact Or.inl (mem_reach.2 (Or.inl ha))
      · rcases commitLoop_histAddrs _ _ ha with h | h
        · exact Or.inl (mem_reach.2 (Or.inr (Or.inl h)))
        · exact Or.inr h
      · simp [cacheAddrs] at ha
  | computeResults =>
    simp only [step] at ha
    split at ha
    · rename_i c hc
      rcases ha with ha | ha | ha
      · exact Or.inl (mem_reach.2 (Or.inl ha))
      · exact Or.inl (mem_reach.2 (Or.inr (Or.inl ha)))
      · exact Or.inl (mem_reach.2 (Or.inr (Or.inr ha)))
    · split at ha
      · rcases ha with ha | ha | ha
        · exact Or.inl (mem_reach.2 (Or.inl ha))
        · exact Or.inl (mem_reach.2 (Or.inr (Or.inl ha)))
        · simp only [cacheAddrs] at ha
          rcases fillCache_fresh ha with h | h
          · simp [dictAddrs] at h
          · exact Or.inr h.1
      · rcases ha with ha | ha | ha
        · exact Or.inl (mem_reach.2 (Or.inl ha))
        · exact Or.inl (mem_reach.2 (Or.inr (Or.inl ha)))
        · simp only [cacheAddrs] at ha
          rcases dictAddrs_insert ha with h | h
          · rcases fillCache_fresh h with h1 | h1
            · simp [dictAddrs] at h1
            · exact Or.inr h1.1
          · simp only [Val.addrs, List.mem_singleton] at h
            have := (fillCache_ext s.history s.heap []).le
            exact Or.inr (by omega)
  | logw beta => exact Or.inl (mem_reach.2 ha)
  | toDict => exact Or.inl (mem_reach.2 ha)
  | updateFromDict cur hist =>
    simp only [step] at ha
    split at ha
    · exact Or.inl (mem_reach.2 ha)
    · have e1 := ((resolveDict_spec s.heap s.escaped (entries cur)).ext.trans
        (resolveHist_spec (resolveDict s.heap s.escaped (entries cur)).1 (resolveDict s.heap s.escaped (entries cur)).2.1
          (entries hist)).ext).le
      have e2 := (copyDict_ext (resolveHist (resolveDict s.heap s.escaped (entries cur)).1 (resolveDict s.heap s.escaped (entries cur)).2.1 (entries hist)).1
        (resolveDict s.heap s.escaped (entries cur)).2.2).le
      rcases ha with ha | ha | ha
      · rcases dictAddrs_updateAll ha with h | h
        · exact Or.inl (mem_reach.2 (Or.inl h))
        · have := (copyDict_fresh h).1
          exact Or.inr (by omega)
      · rcases histAddrs_updateAll ha with h | h
        · exact Or.inl (mem_reach.2 (Or.inr (Or.inl h)))
        · have := (copyHist_fresh h).1
          exact Or.inr (by omega)
      · simp [cacheAddrs] at ha
  | scribble a' p =>
    simp only [step] at ha
    split at ha <;> exact Or.inl (mem_reach.2 ha)

/-! ### a second manager, resume -/

theorem freshIn_inv {s : State} (hI : Inv s) : Inv (freshIn s) := by
  have h0 : reach (freshIn s) = [] := by
    have : reach (freshIn s) = reach init := rfl
    rw [this, reach_init]
  refine ⟨fun a ha => ?_, fun a ha => hI.esc_lt a ha, fun a ha => ?_, fun a ha => ?_⟩
  · rw [h0] at ha; cases ha
  · have : a ∈ reach (freshIn s) := mem_reach.2 (Or.inl ha)
    rw [h0] at this; cases this
  · have : a ∈ reach (freshIn s) := mem_reach.2 (Or.inr ha)
    rw [h0] at this; cases this

theorem defaultsLoop_inv (l : List (Key × Int)) (s : State) (hI : Inv s) : Inv (defaultsLoop l s) := by
  induction l generalizing s with
  | nil => exact hI
  | cons kd r ih =>
    obtain ⟨k, d⟩ := kd
    simp only [defaultsLoop]
    split
    · exact ih _ (step_inv _ _ (step_inv _ _ hI))
    · exact ih _ (step_inv _ _ hI)

/-- every array the manager `t` reaches was allocated at or after heap size `n` -/
def Above (n : Nat) (t : State) : Prop := ∀ a : Nat, a ∈ reach t → n ≤ a

theorem Above.step {n : Nat} {t : State} (h : Above n t) (hn : n ≤ t.heap.length) (o : Op) (ho : o.optIn = false) :
    Above n (step t o).1 := fun a ha => by
  rcases step_reach_new t o ho a ha with h1 | h1
  · exact h a h1
  · omega

theorem defaultsLoop_above (l : List (Key × Int)) (n : Nat) (s : State) (h : Above n s) (hn : n ≤ s.heap.length) :
    Above n (defaultsLoop l s) ∧ n ≤ (defaultsLoop l s).heap.length := by
  induction l generalizing s with
  | nil => exact ⟨h, hn⟩
  | cons kd r ih =>
    obtain ⟨k, d⟩ := kd
    simp only [defaultsLoop]
    have h1 := h.step hn (.getCurrent (some k)) rfl
    have l1 := step_heap_length_le s (.getCurrent (some k))
    split
    · have h2 := h1.step (by omega) (.setCurrent k (.scalar d) true) rfl
      have l2 := step_heap_length_le (step s (.getCurrent (some k))).1 (.setCurrent k (.scalar d) true)
      exact ih _ h2 (by omega)
    · exact ih _ h1 (by omega)

/-! ### `compute_results()` is a function of the committed history payloads -/

theorem cellOf_deref (h : Heap) (v : Val) : cellOf h v = cellOfP (deref h v) := by
  cases v with
  | none => rfl
  | scalar x => rfl
  | ref a =>
    simp only [cellOf, deref]
    cases rd h a <;> rfl

theorem stack_deref (h : Heap) (l : List Val) : stack h l = stackP (l.map (deref h)) := by
  induction l with
  | nil => rfl
  | cons v vs ih =>
    simp only [stack, List.map_cons, stackP, cellOf_deref, ih]
    cases cellOfP (deref h v) <;> cases stackP (List.map (deref h) vs) <;> rfl

theorem lookup_map {α β : Type} (f : α → β) (k : Key) (d : List (Key × α)) :
    lookup k (d.map fun kv => (kv.1, f kv.2)) = (lookup k d).map f := by
  induction d with
  | nil => rfl
  | cons hd tl ih =>
    obtain ⟨k', v⟩ := hd
    simp only [List.map_cons, lookup]
    split
    · rfl
    · exact ih

theorem logwStub_deref (h : Heap) (hist : List (Key × List Val)) : logwStub h hist = logwP (derefHist h hist) := by
  simp only [logwStub, logwP, derefHist, lookup_map]
  cases hb : lookup "beta" hist with
  | none => rfl
  | some b =>
    cases b with
    | nil => rfl
    | cons b0 bs =>
      cases hl : lookup "logl" hist with
      | none => rfl
      | some l => simp [stack_deref]

theorem derefDict_insert (h : Heap) (k : Key) (v : Val) (c : List (Key × Val)) :
    derefDict h (insert k v c) = insert k (deref h v) (derefDict h c) := by
  induction c with
  | nil => rfl
  | cons hd tl ih =>
    obtain ⟨k', v'⟩ := hd
    simp only [insert, derefDict, List.map_cons]
    split
    · rfl
    · simp only [List.map_cons]
      congr 1

theorem deref_new_cell (h : Heap) (c : Option Content) : deref (h ++ [c]) (.ref h.length) = pvalOfCell c := by
  simp only [deref, rd_append_self]
  cases c <;> rfl

/-- the payload dictionary the cache-filling loop produces -/
def fillP (hist : List (Key × List PVal)) (c0 : List (Key × PVal)) : List (Key × PVal) :=
  hist.foldl (fun acc kv => insert kv.1 (pvalOfCell (stackP kv.2)) acc) c0

theorem fillCache_closed (d : List (Key × List Val)) (h : Heap) (c : List (Key × Val))
    (hk : ∀ kv ∈ d, historyKeys.contains kv.1 = true)
    (hd : ∀ a : Nat, a ∈ histAddrs d → a < h.length) (hc : ∀ a : Nat, a ∈ dictAddrs c → a < h.length) :
    (fillCache d h c).2.2 = true ∧
    derefDict (fillCache d h c).1 (fillCache d h c).2.1 = fillP (derefHist h d) (derefDict h c) := by
  induction d generalizing h c with
  | nil => exact ⟨rfl, rfl⟩
  | cons kv r ih =>
    obtain ⟨k, l⟩ := kv
    have hkk : historyKeys.contains k = true := hk (k, l) (by simp)
    simp only [fillCache, hkk, if_true]
    have e1 : Ext h (h ++ [stack h l]) := Ext.snoc _ _
    have hr : ∀ a : Nat, a ∈ histAddrs r → a < h.length := fun a ha =>
      hd a (by simp only [histAddrs, List.flatMap_cons, List.mem_append]; exact Or.inr ha)
    have hl : ∀ a : Nat, a ∈ listAddrs l → a < h.length := fun a ha =>
      hd a (by simp only [histAddrs, List.flatMap_cons, List.mem_append]; exact Or.inl ha)
    have hr1 : ∀ a : Nat, a ∈ histAddrs r → a < (h ++ [stack h l]).length := fun a ha => by
      have := hr a ha; simp; omega
    have hc1 : ∀ a : Nat, a ∈ dictAddrs (insert k (.ref h.length) c) → a < (h ++ [stack h l]).length := fun a ha => by
      rcases dictAddrs_insert ha with h1 | h1
      · have := hc a h1; simp; omega
      · simp only [Val.addrs, List.mem_singleton] at h1; subst h1; simp
    obtain ⟨i1, i2⟩ := ih (h ++ [stack h l]) (insert k (.ref h.length) c)
      (fun kv hkv => hk kv (List.mem_cons_of_mem _ hkv)) hr1 hc1
    refine ⟨i1, ?_⟩
    rw [i2, derefDict_insert, deref_new_cell, derefDict_ext e1 hc, derefHist_ext e1 hr]
    simp only [fillP, derefHist, List.map_cons, List.foldl_cons, stack_deref]

/-- what `compute_results()` returns, as payloads, computed from the committed history payloads alone -/
theorem resultsP_eq (hist : List (Key × List PVal)) : resultsP hist = insert "logw" (pvalOfCell (logwP hist)) (fillP hist []) := rfl

theorem computeResults_fresh_payload (s : State) (hI : Inv s) (hv : histKeysValid s = true) (hc : s.cache = none) :
    derefRes (step s .computeResults).1.heap (step s .computeResults).2 = .dict (resultsP (derefHist s.heap s.history)) ∧
    ∃ c, (step s .computeResults).1.cache = some c ∧
      derefDict (step s .computeResults).1.heap c = resultsP (derefHist s.heap s.history) := by
  have hk : ∀ kv ∈ s.history, historyKeys.contains kv.1 = true := by
    simpa [histKeysValid, List.all_eq_true] using hv
  have hd : ∀ a : Nat, a ∈ histAddrs s.history → a < s.heap.length := fun a ha =>
    hI.reach_lt a (mem_reach.2 (Or.inr (Or.inl ha)))
  obtain ⟨f1, f2⟩ := fillCache_closed s.history s.heap [] hk hd (fun a ha => by simp [dictAddrs] at ha)
  have fe := fillCache_ext s.history s.heap []
  have hfresh : ∀ a : Nat, a ∈ dictAddrs (fillCache s.history s.heap []).2.1 → a < (fillCache s.history s.heap []).1.length :=
    fun a ha => by
      rcases fillCache_fresh ha with h1 | h1
      · simp [dictAddrs] at h1
      · exact h1.2
  -- the cache dictionary in the heap that also holds `logw`
  have hcache : derefDict ((fillCache s.history s.heap []).1 ++ [logwStub (fillCache s.history s.heap []).1 s.history])
      (insert "logw" (.ref (fillCache s.history s.heap []).1.length) (fillCache s.history s.heap []).2.1) =
      resultsP (derefHist s.heap s.history) := by
    rw [derefDict_insert, deref_new_cell, derefDict_ext (Ext.snoc _ _) hfresh, f2, logwStub_deref, derefHist_ext fe hd]
    rfl
  have hall : ∀ a : Nat, a ∈ dictAddrs (insert "logw" (.ref (fillCache s.history s.heap []).1.length) (fillCache s.history s.heap []).2.1) →
      a < ((fillCache s.history s.heap []).1 ++ [logwStub (fillCache s.history s.heap []).1 s.history]).length := fun a ha => by
    rcases dictAddrs_insert ha with h1 | h1
    · have := hfresh a h1; simp; omega
    · simp only [Val.addrs, List.mem_singleton] at h1; subst h1; simp
  simp only [step, hc, f1, Bool.not_true, Bool.false_eq_true, if_false, derefRes]
  refine ⟨?_, _, rfl, ?_⟩
  · rw [copyDict_deref _ _ hall, hcache]
  · rw [derefDict_ext (copyDict_ext _ _) hall, hcache]

/-- the cache, when filled, holds exactly what a fresh computation from the committed history would give -/
def CacheOk (s : State) : Prop :=
  ∀ c, s.cache = some c → derefDict s.heap c = resultsP (derefHist s.heap s.history)

/-- `update_from_dict` with history keys that `get_history` accepts (an exported dictionary always qualifies) -/
def Op.validImport : Op → Bool
  | .updateFromDict _ hist => (entries hist).all fun kv => historyKeys.contains kv.1
  | _ => true

theorem keys_adjust {β : Type} (k : Key) (f : β → β) (d : List (Key × β)) : (adjust k f d).map Prod.fst = d.map Prod.fst := by
  induction d with
  | nil => rfl
  | cons hd tl ih =>
    obtain ⟨k', v⟩ := hd
    simp only [adjust]
    split
    · rfl
    · simp only [List.map_cons, ih]

theorem commitLoop_keys (ks : List Key) (s : State) : (commitLoop ks s).history.map Prod.fst = s.history.map Prod.fst := by
  induction ks generalizing s with
  | nil => rfl
  | cons k ks ih =>
    simp only [commitLoop]
    split
    · split
      · exact ih s
      · rw [ih]; exact keys_adjust _ _ _
    · exact ih s

theorem histKeysValid_iff (s : State) : histKeysValid s = true ↔ ∀ k ∈ s.history.map Prod.fst, historyKeys.contains k = true := by
  simp [histKeysValid, List.all_eq_true]

theorem mem_keys_insert {β : Type} {k : Key} {v : β} {d : List (Key × β)} {x : Key}
    (hx : x ∈ (insert k v d).map Prod.fst) : x = k ∨ x ∈ d.map Prod.fst := by
  simp only [List.mem_map] at hx
  obtain ⟨kv, hm, rfl⟩ := hx
  rcases mem_insert hm with h | h
  · exact Or.inr (List.mem_map.2 ⟨kv, h, rfl⟩)
  · exact Or.inl (by rw [h])

theorem mem_keys_updateAll {β : Type} {e d : List (Key × β)} {x : Key}
    (hx : x ∈ (updateAll d e).map Prod.fst) : x ∈ e.map Prod.fst ∨ x ∈ d.map Prod.fst := by
  induction e generalizing d with
  | nil => exact Or.inr hx
  | cons kv r ih =>
    simp only [updateAll, List.foldl_cons] at hx
    rcases ih (d := insert kv.1 kv.2 d) hx with h | h
    · exact Or.inl (by simp only [List.map_cons, List.mem_cons]; exact Or.inr h)
    · rcases mem_keys_insert h with h1 | h1
      · exact Or.inl (by simp only [List.map_cons, List.mem_cons]; exact Or.inl h1)
      · exact Or.inr h1

theorem cacheOk_none {t : State} (h : t.cache = none) : CacheOk t := fun c hc => by rw [h] at hc; cases hc

/-- the cache and the history keep their cells and those cells keep their payloads -/
theorem cacheOk_frame {s t : State} (hI : Inv s) (hok : CacheOk s) (hc : t.cache = s.cache) (hh : t.history = s.history)
    (he : Ext s.heap t.heap) : CacheOk t := by
  intro c hcc
  rw [hc] at hcc
  have h1 : ∀ a : Nat, a ∈ dictAddrs c → a < s.heap.length := fun a ha =>
    hI.reach_lt a (mem_reach.2 (Or.inr (Or.inr (by rw [hcc]; exact ha))))
  have h2 : ∀ a : Nat, a ∈ histAddrs s.history → a < s.heap.length := fun a ha =>
    hI.reach_lt a (mem_reach.2 (Or.inr (Or.inl ha)))
  rw [hh, derefDict_ext he h1, derefHist_ext he h2]
  exact hok c hcc

theorem resolveHist_keys (h : Heap) (esc : List Addr) (l : List (Key × List Arg)) :
    (resolveHist h esc l).2.2.map Prod.fst = l.map Prod.fst := by
  induction l generalizing h esc with
  | nil => rfl
  | cons kv xs ih => obtain ⟨k, x⟩ := kv; simp only [resolveHist, List.map_cons, ih]

theorem copyHist_keys (h : Heap) (d : List (Key × List Val)) : (copyHist h d).2.map Prod.fst = d.map Prod.fst := by
  induction d generalizing h with
  | nil => rfl
  | cons kv r ih => obtain ⟨k, l⟩ := kv; simp only [copyHist, List.map_cons, ih]

theorem updLoop_current_only (copy : Bool) (kvs : List (Key × Val)) (s : State) :
    (updLoop copy kvs s).1.cache = s.cache ∧ (updLoop copy kvs s).1.history = s.history :=
  ⟨updLoop_cache copy kvs s, updLoop_history copy kvs s⟩

/-- one operation keeps "valid history keys" and "the cache, when filled, is what a fresh computation would give" -/
theorem step_cacheOk (s : State) (o : Op) (hI : Inv s) (hv : histKeysValid s = true) (hok : CacheOk s)
    (hvi : o.validImport = true) : histKeysValid (step s o).1 = true ∧ CacheOk (step s o).1 := by
  have hkeys : ∀ t : State, t.history.map Prod.fst = s.history.map Prod.fst → histKeysValid t = true := fun t ht => by
    rw [histKeysValid_iff, ht]; exact (histKeysValid_iff s).1 hv
  cases o with
  | setCurrent k x copy =>
    have hh := step_history_eq s (.setCurrent k x copy) rfl rfl
    refine ⟨hkeys _ (by rw [hh]), ?_⟩
    simp only [step] at hh ⊢
    split
    · exact hok
    · have e1 := (resolveArg_spec s.heap s.escaped x).ext
      split
      · exact cacheOk_frame hI hok rfl rfl e1
      · exact cacheOk_none rfl
  | updateCurrent kvs copy =>
    have hh := step_history_eq s (.updateCurrent kvs copy) rfl rfl
    refine ⟨hkeys _ (by rw [hh]), ?_⟩
    simp only [step] at hh ⊢
    split
    · exact hok
    · split
      · exact cacheOk_none rfl
      · have e1 := (resolveDict_spec s.heap s.escaped kvs).ext
        have e2 := updLoop_ext copy (resolveDict s.heap s.escaped kvs).2.2
          { s with heap := (resolveDict s.heap s.escaped kvs).1, escaped := (resolveDict s.heap s.escaped kvs).2.1 }
        exact cacheOk_frame hI hok (updLoop_cache _ _ _) (updLoop_history _ _ _) (e1.trans e2)
  | getCurrent k =>
    have hh := step_history_eq s (.getCurrent k) rfl rfl
    have he := step_ext s (.getCurrent k) rfl
    refine ⟨hkeys _ (by rw [hh]), cacheOk_frame hI hok ?_ hh he⟩
    cases k with
    | some k => simp only [step]; split <;> (try split) <;> rfl
    | none => rfl
  | getHistory k index flat =>
    have hh := step_history_eq s (.getHistory k index flat) rfl rfl
    have he := step_ext s (.getHistory k index flat) rfl
    refine ⟨hkeys _ (by rw [hh]), cacheOk_frame hI hok ?_ hh he⟩
    simp only [step]
    split
    · rfl
    · split
      · rfl
      · split
        · split <;> rfl
        · split
          · rfl
          · split <;> rfl
  | getLastHistory k =>
    have hh := step_history_eq s (.getLastHistory k) rfl rfl
    have he := step_ext s (.getLastHistory k) rfl
    refine ⟨hkeys _ (by rw [hh]), cacheOk_frame hI hok ?_ hh he⟩
    simp only [step]
    split
    · rfl
    · split
      · rfl
      · split <;> rfl
  | commit strict =>
    simp only [step]
    split
    · exact ⟨hv, hok⟩
    · exact ⟨hkeys _ (commitLoop_keys _ _), cacheOk_none rfl⟩
  | computeResults =>
    have hh := step_history_eq s .computeResults rfl rfl
    have he := step_ext s .computeResults rfl
    refine ⟨hkeys _ (by rw [hh]), ?_⟩
    cases hc : s.cache with
    | some c =>
      refine cacheOk_frame hI hok ?_ hh he
      simp [step, hc]
    | none =>
      obtain ⟨_, c, hc1, hc2⟩ := computeResults_fresh_payload s hI hv hc
      intro c' hc'
      rw [hc1] at hc'
      have : c' = c := (Option.some.inj hc').symm
      subst this
      rw [hh, derefHist_ext he (fun a ha => hI.reach_lt a (mem_reach.2 (Or.inr (Or.inl ha))))]
      exact hc2
  | logw beta =>
    exact ⟨hkeys _ rfl, cacheOk_frame hI hok rfl rfl (Ext.snoc _ _)⟩
  | toDict =>
    exact ⟨hkeys _ rfl, cacheOk_frame hI hok rfl rfl (step_ext s .toDict rfl)⟩
  | updateFromDict cur hist =>
    simp only [step]
    split
    · exact ⟨hv, hok⟩
    · refine ⟨?_, cacheOk_none rfl⟩
      rw [histKeysValid_iff]
      intro k hk
      rcases mem_keys_updateAll hk with h1 | h1
      · rw [copyHist_keys, resolveHist_keys] at h1
        simp only [Op.validImport, List.all_eq_true] at hvi
        simp only [List.mem_map] at h1
        obtain ⟨kv, hm, rfl⟩ := h1
        exact hvi kv hm
      · exact (histKeysValid_iff s).1 hv k h1
  | scribble a p =>
    simp only [step]
    split
    · rename_i hm
      have hm' : a ∈ s.escaped := by simpa using hm
      refine ⟨hv, fun c hc => ?_⟩
      have h1 : a ∉ dictAddrs c := fun hx => hI.sepH a (Or.inr (by rw [show s.cache = some c from hc]; exact hx)) hm'
      have h2 : a ∉ histAddrs s.history := fun hx => hI.sepH a (Or.inl hx) hm'
      simp only [derefDict_set h1, derefHist_set h2]
      exact hok c hc
    · exact ⟨hv, hok⟩

theorem init_cacheOk : histKeysValid init = true ∧ CacheOk init := ⟨by decide, cacheOk_none rfl⟩

theorem run_cacheOk (ops : List Op) (s : State) (hI : Inv s) (hv : histKeysValid s = true) (hok : CacheOk s)
    (hvi : ∀ o ∈ ops, o.validImport = true) : histKeysValid (run s ops) = true ∧ CacheOk (run s ops) := by
  induction ops generalizing s with
  | nil => exact ⟨hv, hok⟩
  | cons o os ih =>
    obtain ⟨h1, h2⟩ := step_cacheOk s o hI hv hok (hvi o (by simp))
    exact ih _ (step_inv s o hI) h1 h2 (fun x hx => hvi x (List.mem_cons_of_mem _ hx))

/-- what `compute_results()` returns now — from the cache or freshly computed — is `resultsP` of the history payloads -/
theorem results_eq_resultsP (s : State) (hI : Inv s) (hv : histKeysValid s = true) (hok : CacheOk s) :
    (observe s).results = .dict (resultsP (derefHist s.heap s.history)) := by
  simp only [observe]
  cases hc : s.cache with
  | none => exact (computeResults_fresh_payload s hI hv hc).1
  | some c =>
    simp only [step, hc, derefRes]
    rw [copyDict_deref _ _ (fun a ha => hI.reach_lt a (mem_reach.2 (Or.inr (Or.inr (by rw [hc]; exact ha))))), hok c hc]

/-! ### resume restores the committed history (payloads) -/

theorem resolveArg_valToArg (h : Heap) (esc : List Addr) (v : Val) : resolveArg h esc (valToArg v) = (h, esc, v) := by
  cases v <;> rfl

theorem resolveList_valToArg (h : Heap) (esc : List Addr) (l : List Val) :
    resolveList h esc (l.map valToArg) = (h, esc, l) := by
  induction l with
  | nil => rfl
  | cons v vs ih => simp only [List.map_cons, resolveList, resolveArg_valToArg, ih]

theorem resolveDict_valToArg (h : Heap) (esc : List Addr) (d : List (Key × Val)) :
    resolveDict h esc (d.map fun kv => (kv.1, valToArg kv.2)) = (h, esc, d) := by
  induction d with
  | nil => rfl
  | cons kv r ih => obtain ⟨k, v⟩ := kv; simp only [List.map_cons, resolveDict, resolveArg_valToArg, ih]

theorem resolveHist_valToArg (h : Heap) (esc : List Addr) (d : List (Key × List Val)) :
    resolveHist h esc (d.map fun kv => (kv.1, kv.2.map valToArg)) = (h, esc, d) := by
  induction d with
  | nil => rfl
  | cons kv r ih => obtain ⟨k, l⟩ := kv; simp only [List.map_cons, resolveHist, resolveList_valToArg, ih]

theorem legal_valToArg {esc : List Addr} {v : Val} (hv : ∀ a : Nat, a ∈ v.addrs → a ∈ esc) : (valToArg v).legal esc = true := by
  cases v with
  | none => rfl
  | scalar x => rfl
  | ref a => simpa [valToArg, Arg.legal] using hv a (by simp [Val.addrs])

theorem dictLegal_valToArg {esc : List Addr} {d : List (Key × Val)} (hv : ∀ a : Nat, a ∈ dictAddrs d → a ∈ esc) :
    dictLegal esc (d.map fun kv => (kv.1, valToArg kv.2)) = true := by
  simp only [dictLegal, List.all_map, List.all_eq_true, Function.comp]
  intro kv hm
  exact legal_valToArg (fun a ha => hv a (mem_dictAddrs.2 ⟨kv.1, by rw [← mem_addrs_ref.1 ha]; exact hm⟩))

theorem histLegal_valToArg {esc : List Addr} {d : List (Key × List Val)} (hv : ∀ a : Nat, a ∈ histAddrs d → a ∈ esc) :
    histLegal esc (d.map fun kv => (kv.1, kv.2.map valToArg)) = true := by
  simp only [histLegal, List.all_map, List.all_eq_true, Function.comp]
  intro kv hm x hx
  exact legal_valToArg (fun a ha => hv a (mem_histAddrs.2 ⟨kv.1, kv.2, hm, by rw [← mem_addrs_ref.1 ha]; exact hx⟩))

theorem derefHist_insert (h : Heap) (k : Key) (l : List Val) (d : List (Key × List Val)) :
    derefHist h (insert k l d) = insert k (l.map (deref h)) (derefHist h d) := by
  induction d with
  | nil => rfl
  | cons hd tl ih =>
    obtain ⟨k', l'⟩ := hd
    simp only [insert, derefHist, List.map_cons]
    split
    · rfl
    · simp only [List.map_cons]; congr 1

theorem derefHist_updateAll (h : Heap) (d e : List (Key × List Val)) :
    derefHist h (updateAll d e) = updateAll (derefHist h d) (derefHist h e) := by
  induction e generalizing d with
  | nil => rfl
  | cons kv r ih =>
    simp only [updateAll, List.foldl_cons] at ih ⊢
    rw [ih, derefHist_insert]
    rfl

theorem foldl_insert_head {β : Type} (k : Key) (v : β) (d e : List (Key × β)) (hk : k ∉ e.map Prod.fst) :
    e.foldl (fun acc kv => insert kv.1 kv.2 acc) ((k, v) :: d) = (k, v) :: e.foldl (fun acc kv => insert kv.1 kv.2 acc) d := by
  induction e generalizing d with
  | nil => rfl
  | cons kv r ih =>
    simp only [List.map_cons, List.mem_cons, not_or] at hk
    simp only [List.foldl_cons, insert]
    have : ¬ k = kv.1 := fun h => hk.1 h
    simp only [this, if_false]
    exact ih _ hk.2

/-- importing a dictionary with the same keys in the same order replaces every entry -/
theorem updateAll_same_keys {β : Type} (d e : List (Key × β)) (hk : d.map Prod.fst = e.map Prod.fst)
    (hn : (e.map Prod.fst).Nodup) : updateAll d e = e := by
  induction e generalizing d with
  | nil => cases d with
    | nil => rfl
    | cons _ _ => simp at hk
  | cons kv r ih =>
    cases d with
    | nil => simp at hk
    | cons hd tl =>
      obtain ⟨k0, v0⟩ := hd
      obtain ⟨k, v⟩ := kv
      simp only [List.map_cons, List.cons.injEq] at hk
      simp only [List.map_cons, List.nodup_cons] at hn
      obtain ⟨hk1, hk2⟩ := hk
      subst hk1
      simp only [updateAll, List.foldl_cons, insert, if_true]
      rw [foldl_insert_head _ _ _ _ hn.1]
      congr 1
      exact ih tl hk2 hn.2

theorem defaultsLoop_history (l : List (Key × Int)) (s : State) :
    (defaultsLoop l s).history = s.history ∧ Ext s.heap (defaultsLoop l s).heap := by
  induction l generalizing s with
  | nil => exact ⟨rfl, Ext.refl _⟩
  | cons kd r ih =>
    obtain ⟨k, d⟩ := kd
    simp only [defaultsLoop]
    have h1 := step_history_eq s (.getCurrent (some k)) rfl rfl
    have e1 := step_ext s (.getCurrent (some k)) rfl
    split
    · have h2 := step_history_eq (step s (.getCurrent (some k))).1 (.setCurrent k (.scalar d) true) rfl rfl
      have e2 := step_ext (step s (.getCurrent (some k))).1 (.setCurrent k (.scalar d) true) rfl
      obtain ⟨i1, i2⟩ := ih (step (step s (.getCurrent (some k))).1 (.setCurrent k (.scalar d) true)).1
      exact ⟨by rw [i1, h2, h1], (e1.trans e2).trans i2⟩
    · obtain ⟨i1, i2⟩ := ih (step s (.getCurrent (some k))).1
      exact ⟨by rw [i1, h1], e1.trans i2⟩

/-- importing an exported dictionary (the very arrays the caller was handed) into a newly constructed manager -/
theorem import_export_step (t : State) (c : List (Key × Val)) (h : List (Key × List Val))
    (hc : ∀ a : Nat, a ∈ dictAddrs c → a ∈ t.escaped) (hh : ∀ a : Nat, a ∈ histAddrs h → a ∈ t.escaped) :
    (step (freshIn t) (exportArgs c h)).1 =
      { freshIn t with
          heap := (copyHist (copyDict t.heap c).1 h).1,
          current := updateAll init.current (copyDict t.heap c).2,
          history := updateAll init.history (copyHist (copyDict t.heap c).1 h).2,
          cache := none } := by
  have hl1 := dictLegal_valToArg (esc := t.escaped) hc
  have hl2 := histLegal_valToArg (esc := t.escaped) hh
  simp only [exportArgs, step, entries, freshIn, hl1, hl2, Bool.and_self, Bool.not_true, Bool.false_eq_true, if_false,
    resolveDict_valToArg, resolveHist_valToArg]

/-- the history of the resumed manager carries the payloads of the committed history, key by key and batch by batch -/
theorem resume_history (s : State) (hI : Inv s) (hk : s.history.map Prod.fst = historyKeys) :
    derefHist (resume s).heap (resume s).history = derefHist s.heap s.history := by
  have hI1 := step_inv s .toDict hI
  -- the export
  have hx : step s .toDict =
      ({ s with heap := (copyHist (copyDict s.heap s.current).1 s.history).1,
                escaped := dictAddrs (copyDict s.heap s.current).2 ++ histAddrs (copyHist (copyDict s.heap s.current).1 s.history).2 ++ s.escaped },
       .export (copyDict s.heap s.current).2 (copyHist (copyDict s.heap s.current).1 s.history).2) := rfl
  have hcur_lt : ∀ a : Nat, a ∈ dictAddrs s.current → a < s.heap.length := fun a ha => hI.reach_lt a (mem_reach.2 (Or.inl ha))
  have hhist_lt : ∀ a : Nat, a ∈ histAddrs s.history → a < s.heap.length := fun a ha =>
    hI.reach_lt a (mem_reach.2 (Or.inr (Or.inl ha)))
  have e0 := copyDict_ext s.heap s.current
  -- payload of the exported history
  have hexp : derefHist (step s .toDict).1.heap (copyHist (copyDict s.heap s.current).1 s.history).2 = derefHist s.heap s.history := by
    rw [hx]
    simp only
    rw [copyHist_deref _ _ (fun a ha => by have := hhist_lt a ha; have := e0.le; omega), derefHist_ext e0 hhist_lt]
  -- the exported arrays are held by the caller, hence legal arguments, and allocated
  have hesc_c : ∀ a : Nat, a ∈ dictAddrs (copyDict s.heap s.current).2 → a ∈ (step s .toDict).1.escaped := fun a ha => by
    rw [hx]; simp only [List.mem_append]; exact Or.inl (Or.inl ha)
  have hesc_h : ∀ a : Nat, a ∈ histAddrs (copyHist (copyDict s.heap s.current).1 s.history).2 → a ∈ (step s .toDict).1.escaped :=
    fun a ha => by rw [hx]; simp only [List.mem_append]; exact Or.inl (Or.inr ha)
  have hlt_h : ∀ a : Nat, a ∈ histAddrs (copyHist (copyDict s.heap s.current).1 s.history).2 → a < (step s .toDict).1.heap.length :=
    fun a ha => hI1.esc_lt a (hesc_h a ha)
  have hlt_c : ∀ a : Nat, a ∈ dictAddrs (copyDict s.heap s.current).2 → a < (step s .toDict).1.heap.length :=
    fun a ha => hI1.esc_lt a (hesc_c a ha)
  -- unfold `resume`
  have hres : resume s = defaultsLoop resumeDefaults
      (step (freshIn (step s .toDict).1) (exportArgs (copyDict s.heap s.current).2 (copyHist (copyDict s.heap s.current).1 s.history).2)).1 := by
    unfold resume; rw [hx]
  have hInvImp := step_inv _ (exportArgs (copyDict s.heap s.current).2 (copyHist (copyDict s.heap s.current).1 s.history).2)
    (freshIn_inv hI1)
  obtain ⟨d1, d2⟩ := defaultsLoop_history resumeDefaults
    (step (freshIn (step s .toDict).1) (exportArgs (copyDict s.heap s.current).2 (copyHist (copyDict s.heap s.current).1 s.history).2)).1
  rw [hres, d1, derefHist_ext d2 (fun a ha => hInvImp.reach_lt a (mem_reach.2 (Or.inr (Or.inl ha))))]
  -- the import itself
  have hstep := import_export_step (step s .toDict).1 (copyDict s.heap s.current).2
    (copyHist (copyDict s.heap s.current).1 s.history).2 hesc_c hesc_h
  rw [hstep]
  simp only
  have e1 := copyDict_ext (step s .toDict).1.heap (copyDict s.heap s.current).2
  rw [derefHist_updateAll, copyHist_deref _ _ (fun a ha => by have := hlt_h a ha; have := e1.le; omega),
    derefHist_ext e1 hlt_h, hexp]
  apply updateAll_same_keys
  · simp only [derefHist, List.map_map]
    show (init.history.map fun kv => kv.1) = (s.history.map fun kv => kv.1)
    have : (s.history.map fun kv => kv.1) = s.history.map Prod.fst := rfl
    rw [this, hk]
    decide
  · simp only [derefHist, List.map_map]
    show ((s.history.map fun kv => kv.1)).Nodup
    have : (s.history.map fun kv => kv.1) = s.history.map Prod.fst := rfl
    rw [this, hk]
    decide

theorem run_history_keys (ops : List Op) (s : State) (hni : ∀ o ∈ ops, o.isImport = false) :
    (run s ops).history.map Prod.fst = s.history.map Prod.fst := by
  induction ops generalizing s with
  | nil => rfl
  | cons o os ih =>
    simp only [run]
    rw [ih _ (fun x hx => hni x (List.mem_cons_of_mem _ hx))]
    cases hcm : o.isCommit with
    | false => rw [step_history_eq s o hcm (hni o (by simp))]
    | true =>
      cases o with
      | commit strict =>
        simp only [step]
        split
        · rfl
        · exact commitLoop_keys _ _
      | _ => simp [Op.isCommit] at hcm

end Model.StateMgr
