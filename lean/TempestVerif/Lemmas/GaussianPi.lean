import Mathlib.Probability.Distributions.Gaussian.Real
import Mathlib.MeasureTheory.Constructions.Pi
import Mathlib.MeasureTheory.Integral.Pi
import Mathlib.MeasureTheory.Measure.Lebesgue.Basic
import Mathlib.MeasureTheory.Measure.WithDensity
import Mathlib.LinearAlgebra.Matrix.NonsingularInverse
import Mathlib.Tactic
/-
  The standard normal vector `np.random.randn(d)` as `Measure.pi (fun _ : ι => gaussianReal 0 1)` on `ι → ℝ`:
  its Lebesgue density, the density of its image under an invertible affine map `z ↦ b + M *ᵥ z`
  (and under `z ↦ b + c • (M *ᵥ z)`, the form used by the tpCN / RWM proposals), symmetry under negation,
  and joint measurability of the resulting proposal density.
-/
set_option linter.unusedSimpArgs false
set_option linter.unusedVariables false
set_option linter.unusedSectionVars false
namespace Lemmas.GaussianPi
open Real MeasureTheory ProbabilityTheory Set Matrix
open scoped ENNReal NNReal

variable {ι : Type*} [Fintype ι] [DecidableEq ι]

/-! ## 1. a product of densities is the density of the product -/

/-- mass of a measurable box under the product density -/
theorem withDensity_prod_box (f : ι → ℝ → ℝ) (hm : ∀ i, Measurable (f i)) (h0 : ∀ i x, 0 ≤ f i x)
    (hi : ∀ i, Integrable (f i) volume) (s : ι → Set ℝ) (hs : ∀ i, MeasurableSet (s i)) :
    ((volume : Measure (ι → ℝ)).withDensity (fun x => ENNReal.ofReal (∏ i, f i (x i)))) (Set.pi univ s)
      = ∏ i, ((volume : Measure ℝ).withDensity (fun x => ENNReal.ofReal (f i x))) (s i) := by
  rw [withDensity_apply _ (MeasurableSet.univ_pi hs), volume_pi, Measure.restrict_pi_pi]
  have hint : Integrable (fun x : ι → ℝ => ∏ i, f i (x i))
      (Measure.pi (fun i => (volume : Measure ℝ).restrict (s i))) :=
    Integrable.fintype_prod (fun i => (hi i).restrict)
  rw [← ofReal_integral_eq_lintegral_ofReal hint
      (Filter.Eventually.of_forall fun x => Finset.prod_nonneg fun i _ => h0 i (x i)),
    integral_fintype_prod_eq_prod (𝕜 := ℝ) (f := f),
    ENNReal.ofReal_prod_of_nonneg (fun i _ => integral_nonneg (h0 i))]
  refine Finset.prod_congr rfl fun i _ => ?_
  rw [withDensity_apply _ (hs i),
    ofReal_integral_eq_lintegral_ofReal (hi i).restrict (Filter.Eventually.of_forall (h0 i))]

/-- **item 1** — `Measure.pi` of measures with (finite) densities has the product density. -/
theorem pi_withDensity_ofReal (f : ι → ℝ → ℝ) (hm : ∀ i, Measurable (f i)) (h0 : ∀ i x, 0 ≤ f i x)
    (hi : ∀ i, Integrable (f i) volume) :
    Measure.pi (fun i => (volume : Measure ℝ).withDensity (fun x => ENNReal.ofReal (f i x)))
      = (volume : Measure (ι → ℝ)).withDensity (fun x => ENNReal.ofReal (∏ i, f i (x i))) := by
  have hfin : ∀ i, IsFiniteMeasure ((volume : Measure ℝ).withDensity (fun x => ENNReal.ofReal (f i x))) :=
    fun i => isFiniteMeasure_withDensity_ofReal (hi i).2
  exact Measure.pi_eq fun s hs => withDensity_prod_box f hm h0 hi s hs

/-! ## 2. the standard normal vector has density `(2π)^{-d/2} exp(-|z|²/2)` -/

/-- the standard normal density on `ι → ℝ`; the constant is written `(√(2π))⁻¹ ^ card ι` -/
noncomputable def stdGaussDensity (z : ι → ℝ) : ℝ :=
  (√(2 * π))⁻¹ ^ Fintype.card ι * Real.exp (-(∑ i, z i ^ 2) / 2)

theorem stdGaussDensity_pos (z : ι → ℝ) : 0 < stdGaussDensity z := by
  unfold stdGaussDensity; positivity

theorem prod_gaussianPDFReal (z : ι → ℝ) :
    ∏ i, gaussianPDFReal 0 1 (z i) = stdGaussDensity z := by
  unfold stdGaussDensity gaussianPDFReal
  rw [Finset.prod_mul_distrib, Finset.prod_const, ← Real.exp_sum, Finset.card_univ]
  congr 2
  · simp
  · rw [neg_div, Finset.sum_div, ← Finset.sum_neg_distrib]
    refine Finset.sum_congr rfl fun i _ => ?_
    simp [neg_div]

/-- **item 2** — the law of `randn(d)` as a Lebesgue density. The constant `(√(2π))⁻¹ ^ card ι` equals `(2π)^{-d/2}`. -/
theorem pi_gaussian_eq_withDensity :
    Measure.pi (fun _ : ι => gaussianReal 0 1)
      = (volume : Measure (ι → ℝ)).withDensity (fun z =>
          ENNReal.ofReal ((√(2 * π))⁻¹ ^ Fintype.card ι * Real.exp (-(∑ i, z i ^ 2) / 2))) := by
  have h1 : gaussianReal 0 1 = (volume : Measure ℝ).withDensity (fun x => ENNReal.ofReal (gaussianPDFReal 0 1 x)) := by
    rw [gaussianReal_of_var_ne_zero 0 one_ne_zero]; rfl
  rw [h1, pi_withDensity_ofReal (fun _ : ι => gaussianPDFReal 0 1) (fun _ => measurable_gaussianPDFReal 0 1)
    (fun _ x => gaussianPDFReal_nonneg 0 1 x) (fun _ => integrable_gaussianPDFReal 0 1)]
  congr 1; funext z
  rw [prod_gaussianPDFReal]; rfl

theorem sum_sq_eq_dotProduct (w : ι → ℝ) : ∑ i, w i ^ 2 = w ⬝ᵥ w := by
  simp [dotProduct, sq]

/-! ## 3. invertible affine images of measures with a Lebesgue density -/

/-- pushing a density forward along a map with a measurable left inverse -/
theorem map_withDensity_of_leftInverse {α β : Type*} [MeasurableSpace α] [MeasurableSpace β] (μ : Measure α)
    (T : α → β) (S : β → α) (hT : Measurable T) (hS : Measurable S) (hST : ∀ z, S (T z) = z)
    (φ : α → ℝ≥0∞) (hφ : Measurable φ) :
    (μ.withDensity φ).map T = (μ.map T).withDensity (fun y => φ (S y)) := by
  ext s hs
  rw [Measure.map_apply hT hs, withDensity_apply _ (hT hs), withDensity_apply _ hs,
    setLIntegral_map (f := fun y => φ (S y)) hs (hφ.comp hS) hT]
  simp only [hST]

theorem measurable_mulVec (M : Matrix ι ι ℝ) : Measurable (fun z : ι → ℝ => M *ᵥ z) :=
  (Continuous.matrix_mulVec continuous_const continuous_id).measurable

theorem measurable_affine (M : Matrix ι ι ℝ) (b : ι → ℝ) : Measurable (fun z : ι → ℝ => b + M *ᵥ z) :=
  measurable_const.add (measurable_mulVec M)

theorem measurable_affineInv (M : Matrix ι ι ℝ) (b : ι → ℝ) : Measurable (fun y : ι → ℝ => M⁻¹ *ᵥ (y - b)) :=
  (measurable_mulVec M⁻¹).comp (measurable_id.sub measurable_const)

theorem affineInv_affine (M : Matrix ι ι ℝ) (hM : M.det ≠ 0) (b z : ι → ℝ) :
    M⁻¹ *ᵥ ((b + M *ᵥ z) - b) = z := by
  rw [add_sub_cancel_left, Matrix.mulVec_mulVec, Matrix.nonsing_inv_mul _ (isUnit_iff_ne_zero.mpr hM), Matrix.one_mulVec]

/-- Lebesgue measure under an invertible affine map -/
theorem map_affine_volume (M : Matrix ι ι ℝ) (hM : M.det ≠ 0) (b : ι → ℝ) :
    (volume : Measure (ι → ℝ)).map (fun z => b + M *ᵥ z) = ENNReal.ofReal |M.det|⁻¹ • (volume : Measure (ι → ℝ)) := by
  have hcomp : (fun z : ι → ℝ => b + M *ᵥ z) = (fun y => b + y) ∘ (Matrix.toLin' M) := by
    funext z; simp
  have hlin : Measurable (⇑(Matrix.toLin' M) : (ι → ℝ) → (ι → ℝ)) := by
    have : (⇑(Matrix.toLin' M) : (ι → ℝ) → (ι → ℝ)) = fun z => M *ᵥ z := by funext z; simp
    rw [this]; exact measurable_mulVec M
  rw [hcomp, ← Measure.map_map (measurable_const_add b) hlin,
    Real.map_matrix_volume_pi_eq_smul_volume_pi hM, Measure.map_smul, map_add_left_eq_self, abs_inv]

/-- **item 3** — the image of a Lebesgue density under `z ↦ b + M z`. -/
theorem map_affine_withDensity (M : Matrix ι ι ℝ) (hM : M.det ≠ 0) (b : ι → ℝ) (φ : (ι → ℝ) → ℝ≥0∞)
    (hφ : Measurable φ) :
    ((volume : Measure (ι → ℝ)).withDensity φ).map (fun z => b + M *ᵥ z)
      = (volume : Measure (ι → ℝ)).withDensity (fun y => ENNReal.ofReal |M.det|⁻¹ * φ (M⁻¹ *ᵥ (y - b))) := by
  rw [map_withDensity_of_leftInverse volume _ (fun y => M⁻¹ *ᵥ (y - b)) (measurable_affine M b)
      (measurable_affineInv M b) (affineInv_affine M hM b) φ hφ,
    map_affine_volume M hM b, withDensity_smul_measure]
  exact (withDensity_smul _ (hφ.comp (measurable_affineInv M b))).symm

/-! ## 4. affine images of the standard normal vector -/

/-- **item 4** — the law of `b + M z`, `z ~ randn(d)`. -/
theorem map_affine_pi_gaussian (M : Matrix ι ι ℝ) (hM : M.det ≠ 0) (b : ι → ℝ) :
    (Measure.pi (fun _ : ι => gaussianReal 0 1)).map (fun z => b + M *ᵥ z)
      = (volume : Measure (ι → ℝ)).withDensity (fun y => ENNReal.ofReal (|M.det|⁻¹ *
          ((√(2 * π))⁻¹ ^ Fintype.card ι * Real.exp (-((M⁻¹ *ᵥ (y - b)) ⬝ᵥ (M⁻¹ *ᵥ (y - b))) / 2)))) := by
  rw [pi_gaussian_eq_withDensity, map_affine_withDensity M hM b _ (by fun_prop)]
  congr 1; funext y
  rw [sum_sq_eq_dotProduct, ← ENNReal.ofReal_mul (by positivity)]

/-! ## 5. symmetry -/

/-- **item 5** — `-z` has the law of `z`. -/
theorem pi_gaussian_map_neg :
    (Measure.pi (fun _ : ι => gaussianReal 0 1)).map (fun z => -z) = Measure.pi (fun _ : ι => gaussianReal 0 1) := by
  have h := Measure.pi_map_pi (μ := fun _ : ι => gaussianReal 0 1) (f := fun _ x => -x)
    (hμ := fun i => by rw [gaussianReal_map_neg]; infer_instance) (fun _ => measurable_neg.aemeasurable)
  simp only [gaussianReal_map_neg, neg_zero] at h
  exact h

example : IsProbabilityMeasure (Measure.pi (fun _ : ι => gaussianReal 0 1)) := inferInstance

/-! ## 6. the scaled form used by the proposals, and joint measurability of its density -/

/-- density at `y` of `b + c • (M z)`, `z ~ randn(d)` -/
noncomputable def affineGaussDensity (M : Matrix ι ι ℝ) (c : ℝ) (b y : ι → ℝ) : ℝ :=
  |c|⁻¹ ^ Fintype.card ι * |M.det|⁻¹ * ((√(2 * π))⁻¹ ^ Fintype.card ι *
    Real.exp (-((M⁻¹ *ᵥ (y - b)) ⬝ᵥ (M⁻¹ *ᵥ (y - b))) / (2 * c ^ 2)))

theorem affineGaussDensity_nonneg (M : Matrix ι ι ℝ) (c : ℝ) (b y : ι → ℝ) : 0 ≤ affineGaussDensity M c b y := by
  unfold affineGaussDensity; positivity

theorem affineGaussDensity_pos (M : Matrix ι ι ℝ) (hM : M.det ≠ 0) (c : ℝ) (hc : c ≠ 0) (b y : ι → ℝ) :
    0 < affineGaussDensity M c b y := by
  unfold affineGaussDensity
  have h1 : 0 < |c| := abs_pos.mpr hc
  have h2 : 0 < |M.det| := abs_pos.mpr hM
  positivity

/-- joint measurability in the scale `c`, the shift `b` and the point `y` -/
theorem measurable_affineGaussDensity (M : Matrix ι ι ℝ) :
    Measurable (fun p : ℝ × (ι → ℝ) × (ι → ℝ) => affineGaussDensity M p.1 p.2.1 p.2.2) := by
  unfold affineGaussDensity
  have hw : Measurable (fun p : ℝ × (ι → ℝ) × (ι → ℝ) => M⁻¹ *ᵥ (p.2.2 - p.2.1)) :=
    (measurable_mulVec M⁻¹).comp (measurable_snd.snd.sub measurable_snd.fst)
  have hq : Measurable (fun p : ℝ × (ι → ℝ) × (ι → ℝ) => (M⁻¹ *ᵥ (p.2.2 - p.2.1)) ⬝ᵥ (M⁻¹ *ᵥ (p.2.2 - p.2.1))) := by
    simp only [dotProduct]
    exact Finset.measurable_sum _ fun i _ => ((measurable_pi_apply i).comp hw).mul ((measurable_pi_apply i).comp hw)
  have hc : Measurable (fun p : ℝ × (ι → ℝ) × (ι → ℝ) => p.1) := measurable_fst
  exact (((continuous_abs.measurable.comp hc).inv.pow_const _).mul measurable_const).mul
    (measurable_const.mul (Real.measurable_exp.comp (hq.neg.div (measurable_const.mul (hc.pow_const 2)))))

/-- fixed scale: joint measurability in `(b, y)` -/
theorem measurable_affineGaussDensity_pair (M : Matrix ι ι ℝ) (c : ℝ) :
    Measurable (fun p : (ι → ℝ) × (ι → ℝ) => affineGaussDensity M c p.1 p.2) :=
  (measurable_affineGaussDensity M).comp (measurable_const.prodMk measurable_id)

/-- the `ℝ≥0∞`-valued density, jointly measurable in `(c, b, y)` -/
theorem measurable_ofReal_affineGaussDensity (M : Matrix ι ι ℝ) :
    Measurable (fun p : ℝ × (ι → ℝ) × (ι → ℝ) => ENNReal.ofReal (affineGaussDensity M p.1 p.2.1 p.2.2)) :=
  ENNReal.measurable_ofReal.comp (measurable_affineGaussDensity M)

theorem affineGaussDensity_scaled (M : Matrix ι ι ℝ) (hM : M.det ≠ 0) (c : ℝ) (hc : c ≠ 0) (b y : ι → ℝ) :
    |(c • M).det|⁻¹ * ((√(2 * π))⁻¹ ^ Fintype.card ι *
        Real.exp (-(((c • M)⁻¹ *ᵥ (y - b)) ⬝ᵥ ((c • M)⁻¹ *ᵥ (y - b))) / 2))
      = affineGaussDensity M c b y := by
  unfold affineGaussDensity
  have hinv : (c • M)⁻¹ = c⁻¹ • M⁻¹ := by
    refine Matrix.inv_eq_left_inv ?_
    rw [Matrix.smul_mul, Matrix.mul_smul, smul_smul, inv_mul_cancel₀ hc, one_smul,
      Matrix.nonsing_inv_mul _ (isUnit_iff_ne_zero.mpr hM)]
  rw [hinv, Matrix.det_smul, abs_mul, abs_pow, mul_inv, Matrix.smul_mulVec, dotProduct_smul, smul_dotProduct]
  congr 3
  · exact (inv_pow _ _).symm
  · simp only [smul_eq_mul]
    field_simp

/-- **item 6** — the law of `b + c • (M z)`, `z ~ randn(d)` (`c = σ√(1/g)` for tpCN, `c = σ` for RWM, `M` = Cholesky factor). -/
theorem map_scaled_affine_pi_gaussian (M : Matrix ι ι ℝ) (hM : M.det ≠ 0) (c : ℝ) (hc : c ≠ 0) (b : ι → ℝ) :
    (Measure.pi (fun _ : ι => gaussianReal 0 1)).map (fun z => b + c • (M *ᵥ z))
      = (volume : Measure (ι → ℝ)).withDensity (fun y => ENNReal.ofReal (|c|⁻¹ ^ Fintype.card ι * |M.det|⁻¹ *
          ((√(2 * π))⁻¹ ^ Fintype.card ι *
            Real.exp (-((M⁻¹ *ᵥ (y - b)) ⬝ᵥ (M⁻¹ *ᵥ (y - b))) / (2 * c ^ 2))))) := by
  have hdet : (c • M).det ≠ 0 := by
    rw [Matrix.det_smul]; exact mul_ne_zero (pow_ne_zero _ hc) hM
  have hfun : (fun z : ι → ℝ => b + c • (M *ᵥ z)) = fun z => b + (c • M) *ᵥ z := by
    funext z; rw [Matrix.smul_mulVec]
  rw [hfun, map_affine_pi_gaussian (c • M) hdet b]
  congr 1; funext y
  rw [affineGaussDensity_scaled M hM c hc b y]; rfl

/-- the same, stated with the named density -/
theorem map_scaled_affine_pi_gaussian' (M : Matrix ι ι ℝ) (hM : M.det ≠ 0) (c : ℝ) (hc : c ≠ 0) (b : ι → ℝ) :
    (Measure.pi (fun _ : ι => gaussianReal 0 1)).map (fun z => b + c • (M *ᵥ z))
      = (volume : Measure (ι → ℝ)).withDensity (fun y => ENNReal.ofReal (affineGaussDensity M c b y)) :=
  map_scaled_affine_pi_gaussian M hM c hc b

/-! ## non-vacuity -/

example : (!![2, 0; 1, 1] : Matrix (Fin 2) (Fin 2) ℝ).det ≠ 0 := by
  simp [Matrix.det_fin_two]

example (b : Fin 2 → ℝ) :
    (Measure.pi (fun _ : Fin 2 => gaussianReal 0 1)).map (fun z => b + (3 : ℝ) • ((!![2, 0; 1, 1] : Matrix (Fin 2) (Fin 2) ℝ) *ᵥ z))
      = (volume : Measure (Fin 2 → ℝ)).withDensity (fun y =>
          ENNReal.ofReal (affineGaussDensity (!![2, 0; 1, 1] : Matrix (Fin 2) (Fin 2) ℝ) 3 b y)) :=
  map_scaled_affine_pi_gaussian' _ (by simp [Matrix.det_fin_two]) 3 (by norm_num) b

example (b : Fin 2 → ℝ) :
    (Measure.pi (fun _ : Fin 2 => gaussianReal 0 1)).map (fun z => b + (!![2, 0; 1, 1] : Matrix (Fin 2) (Fin 2) ℝ) *ᵥ z)
      = (volume : Measure (Fin 2 → ℝ)).withDensity (fun y => ENNReal.ofReal
          (|(!![2, 0; 1, 1] : Matrix (Fin 2) (Fin 2) ℝ).det|⁻¹ * ((√(2 * π))⁻¹ ^ Fintype.card (Fin 2) *
            Real.exp (-(((!![2, 0; 1, 1] : Matrix (Fin 2) (Fin 2) ℝ)⁻¹ *ᵥ (y - b)) ⬝ᵥ
              ((!![2, 0; 1, 1] : Matrix (Fin 2) (Fin 2) ℝ)⁻¹ *ᵥ (y - b))) / 2)))) :=
  map_affine_pi_gaussian _ (by simp [Matrix.det_fin_two]) b

end Lemmas.GaussianPi
