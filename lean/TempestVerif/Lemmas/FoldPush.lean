import Mathlib.MeasureTheory.Constructions.Pi
import Mathlib.MeasureTheory.Measure.Lebesgue.Basic
import Mathlib.MeasureTheory.Measure.Haar.OfBasis
import Mathlib.MeasureTheory.Group.LIntegral
import Mathlib.MeasureTheory.Measure.WithDensity
import Mathlib.MeasureTheory.Constructions.BorelSpace.Order
import Mathlib.MeasureTheory.Function.Floor
import Mathlib.MeasureTheory.Constructions.Polish.Basic
import Mathlib.Tactic
/-
  Push-forward of a Lebesgue density under the PERIODIC fold of a subset `P` of the coordinates (`u[idx] % 1.0`; C03 clauses 7, 9).

  `foldP P x i = fract (x i)` for `i ∈ P`, `x i` otherwise.  ℝ^d is the disjoint union of the cells
  `cell P m = {x | ∀ i ∈ P, ⌊x i⌋ = m i}`, `m` an integer vector supported on `P`; on `cell P m` the fold is the translation by
  `-m`.  Hence for every measurable density `f`

      (volume.withDensity f).map (foldP P) = volume.withDensity (1_{cell P 0} · Σ_m f (· + m))         (`map_foldP_withDensity`)

  — the "sum over preimages" formula, for any number of periodic coordinates and any (correlated) density.
-/
namespace Lemmas.FoldPush
open MeasureTheory Set
open scoped ENNReal Function

variable {d : ℕ}

/-- periodic fold of the coordinates in `P` -/
noncomputable def foldP (P : Finset (Fin d)) (x : Fin d → ℝ) : Fin d → ℝ := fun i => if i ∈ P then Int.fract (x i) else x i

/-- integer shifts supported on `P` -/
def MP (P : Finset (Fin d)) : Type := {m : Fin d → ℤ // ∀ i, i ∉ P → m i = 0}

instance (P : Finset (Fin d)) : Countable (MP P) := by unfold MP; infer_instance

/-- an integer vector as a real vector -/
def shift (m : Fin d → ℤ) : Fin d → ℝ := fun i => (m i : ℝ)

/-- unit cell of the periodic coordinates -/
def cell (P : Finset (Fin d)) (m : Fin d → ℤ) : Set (Fin d → ℝ) := {x | ∀ i ∈ P, ⌊x i⌋ = m i}

theorem measurableSet_cell (P : Finset (Fin d)) (m : Fin d → ℤ) : MeasurableSet (cell P m) := by
  have : cell P m = ⋂ i ∈ P, {x : Fin d → ℝ | ⌊x i⌋ = m i} := by
    ext x; simp [cell]
  rw [this]
  refine Finset.measurableSet_biInter P fun i _ => ?_
  have hm : Measurable fun x : Fin d → ℝ => ⌊x i⌋ := Int.measurable_floor.comp (measurable_pi_apply i)
  exact hm (measurableSet_singleton (m i))

theorem iUnion_cell (P : Finset (Fin d)) : ⋃ m : MP P, cell P m.1 = univ := by
  ext x
  simp only [mem_iUnion, mem_univ, iff_true]
  refine ⟨⟨fun i => if i ∈ P then ⌊x i⌋ else 0, fun i hi => by simp [hi]⟩, fun i hi => by simp [hi]⟩

theorem disjoint_cell (P : Finset (Fin d)) : Pairwise (Disjoint on fun m : MP P => cell P m.1) := by
  intro m m' hne
  rw [Function.onFun, Set.disjoint_left]
  intro x hx hx'
  apply hne
  apply Subtype.ext
  funext i
  by_cases hi : i ∈ P
  · rw [← hx i hi, ← hx' i hi]
  · rw [m.2 i hi, m'.2 i hi]

theorem foldP_on_cell (P : Finset (Fin d)) (m : MP P) {x : Fin d → ℝ} (hx : x ∈ cell P m.1) :
    foldP P x = x - shift m.1 := by
  funext i
  by_cases hi : i ∈ P
  · simp only [foldP, hi, if_true, Pi.sub_apply, shift, ← hx i hi]
    exact (Int.self_sub_floor (x i)).symm
  · simp [foldP, hi, shift, m.2 i hi]

theorem mem_cell_add_shift (P : Finset (Fin d)) (m : Fin d → ℤ) (y : Fin d → ℝ) :
    y + shift m ∈ cell P m ↔ y ∈ cell P 0 := by
  simp only [cell, mem_ofPred_eq, Pi.add_apply, shift, Int.floor_add_intCast, Pi.zero_apply]
  constructor
  · intro h i hi; have := h i hi; omega
  · intro h i hi; have := h i hi; omega

theorem mem_cell_zero (P : Finset (Fin d)) (y : Fin d → ℝ) : y ∈ cell P 0 ↔ ∀ i ∈ P, 0 ≤ y i ∧ y i < 1 := by
  simp only [cell, mem_ofPred_eq, Pi.zero_apply]
  constructor
  · intro h i hi
    have := Int.floor_eq_iff.1 (h i hi)
    simpa using this
  · intro h i hi
    rw [Int.floor_eq_iff]; simpa using h i hi

theorem measurable_foldP (P : Finset (Fin d)) : Measurable (foldP P) := by
  refine measurable_pi_lambda _ fun i => ?_
  unfold foldP
  by_cases hi : i ∈ P
  · simp only [hi, if_true]; exact measurable_fract.comp (measurable_pi_apply i)
  · simp only [hi, if_false]; exact measurable_pi_apply i

/-- **integration against the fold**: `∫ G(fold x) f(x) dx = ∫_{cell 0} G(y) Σ_m f(y + m) dy` -/
theorem lintegral_foldP (P : Finset (Fin d)) {f G : (Fin d → ℝ) → ℝ≥0∞} (hf : Measurable f) (hG : Measurable G) :
    ∫⁻ x, G (foldP P x) * f x = ∫⁻ y in cell P 0, G y * ∑' m : MP P, f (y + shift m.1) := by
  have hstep : ∀ m : MP P, ∫⁻ x in cell P m.1, G (foldP P x) * f x
      = ∫⁻ y in cell P 0, G y * f (y + shift m.1) := by
    intro m
    have h1 : ∫⁻ x in cell P m.1, G (foldP P x) * f x = ∫⁻ x in cell P m.1, G (x - shift m.1) * f x :=
      setLIntegral_congr_fun (measurableSet_cell P m.1) fun x hx => by rw [foldP_on_cell P m hx]
    rw [h1, ← lintegral_indicator (measurableSet_cell P m.1), ← lintegral_indicator (measurableSet_cell P 0),
      ← lintegral_add_right_eq_self _ (shift m.1)]
    refine lintegral_congr fun y => ?_
    by_cases hy : y ∈ cell P 0
    · have hy' : y + shift m.1 ∈ cell P m.1 := (mem_cell_add_shift P m.1 y).2 hy
      simp [hy, hy']
    · have hy' : y + shift m.1 ∉ cell P m.1 := fun h => hy ((mem_cell_add_shift P m.1 y).1 h)
      simp [hy, hy']
  calc ∫⁻ x, G (foldP P x) * f x = ∫⁻ x in ⋃ m : MP P, cell P m.1, G (foldP P x) * f x := by
        rw [iUnion_cell, Measure.restrict_univ]
    _ = ∑' m : MP P, ∫⁻ x in cell P m.1, G (foldP P x) * f x :=
        lintegral_iUnion (fun m : MP P => measurableSet_cell P m.1) (disjoint_cell P) _
    _ = ∑' m : MP P, ∫⁻ y in cell P 0, G y * f (y + shift m.1) := by simp_rw [hstep]
    _ = ∫⁻ y in cell P 0, ∑' m : MP P, G y * f (y + shift m.1) := by
        rw [lintegral_tsum]
        intro m
        exact (hG.mul (hf.comp (measurable_id.add measurable_const))).aemeasurable
    _ = ∫⁻ y in cell P 0, G y * ∑' m : MP P, f (y + shift m.1) := by simp_rw [ENNReal.tsum_mul_left]

/-- the folded density: sum over the preimages, on the unit cell of the periodic coordinates -/
noncomputable def foldDensity (P : Finset (Fin d)) (f : (Fin d → ℝ) → ℝ≥0∞) (y : Fin d → ℝ) : ℝ≥0∞ :=
  (cell P 0).indicator (fun y => ∑' m : MP P, f (y + shift m.1)) y

theorem measurable_tsum_shift (P : Finset (Fin d)) {f : (Fin d → ℝ) → ℝ≥0∞} (hf : Measurable f) :
    Measurable fun y => ∑' m : MP P, f (y + shift m.1) :=
  Measurable.tsum fun _ => hf.comp (measurable_id.add measurable_const)

/-- **the push-forward of a Lebesgue density under the periodic fold has the folded density** -/
theorem map_foldP_withDensity (P : Finset (Fin d)) {f : (Fin d → ℝ) → ℝ≥0∞} (hf : Measurable f) :
    ((volume : Measure (Fin d → ℝ)).withDensity f).map (foldP P) = volume.withDensity (foldDensity P f) := by
  ext B hB
  rw [Measure.map_apply (measurable_foldP P) hB, withDensity_apply _ ((measurable_foldP P) hB),
    withDensity_apply _ hB]
  have h1 : ∫⁻ x in foldP P ⁻¹' B, f x = ∫⁻ x, B.indicator 1 (foldP P x) * f x := by
    rw [← lintegral_indicator ((measurable_foldP P) hB)]
    refine lintegral_congr fun x => ?_
    by_cases hx : foldP P x ∈ B
    · have : x ∈ foldP P ⁻¹' B := hx
      simp [hx, this]
    · have : x ∉ foldP P ⁻¹' B := hx
      simp [hx, this]
  rw [h1, lintegral_foldP P hf ((measurable_one.indicator hB)),
    ← lintegral_indicator (measurableSet_cell P 0), ← lintegral_indicator hB]
  refine lintegral_congr fun y => ?_
  unfold foldDensity
  by_cases hy : y ∈ cell P 0 <;> by_cases hyB : y ∈ B <;> simp [hy, hyB]

end Lemmas.FoldPush
