import TempestVerif.Lemmas.Maha
import Mathlib.LinearAlgebra.Matrix.Symmetric
import Mathlib.Tactic
/-
  Geometry of the Gaussian part of the mutation kernels (C03; reusable by C10/C19):
  with `Σ = L Lᵀ` (what `ModeStatistics` precomputes: `chol_cov`, `inv_cov = Σ⁻¹`) the Mahalanobis form of the noise
  term `c · L z` is `c² · zᵀz`, it is non-negative, and it expands bilinearly (Crank–Nicolson exponent).
-/
namespace Lemmas.KernelGeom
open Matrix Lemmas.Maha
variable {d : Type} [Fintype d] [DecidableEq d]

theorem maha_smul (S : Matrix d d ℝ) (c : ℝ) (v : d → ℝ) : maha S (c • v) = c ^ 2 * maha S v := by
  unfold maha
  rw [mulVec_smul, smul_dotProduct, dotProduct_smul]
  simp only [smul_eq_mul]; ring

/-- `(L z)ᵀ (L Lᵀ)⁻¹ (L z) = zᵀ z` for an invertible factor `L` -/
theorem maha_chol (L : Matrix d d ℝ) (hL : IsUnit L.det) (z : d → ℝ) :
    maha (L * Lᵀ) (L *ᵥ z) = z ⬝ᵥ z := by
  have h := maha_affine L 1 z hL
  rw [Matrix.mul_one] at h
  rw [h]; unfold maha; simp

/-- the noise term `c · L z` of both kernels has Mahalanobis norm `c² · zᵀ z` w.r.t. `Σ = L Lᵀ` -/
theorem maha_chol_noise (L : Matrix d d ℝ) (hL : IsUnit L.det) (c : ℝ) (z : d → ℝ) :
    maha (L * Lᵀ) (c • (L *ᵥ z)) = c ^ 2 * (z ⬝ᵥ z) := by
  rw [maha_smul, maha_chol L hL]

/-- the quadratic form the code calls `dot_product` is non-negative when `inv_cov = (L Lᵀ)⁻¹` -/
theorem maha_chol_nonneg (L : Matrix d d ℝ) (hL : IsUnit L.det) (v : d → ℝ) : 0 ≤ maha (L * Lᵀ) v := by
  have hv : v = L *ᵥ (L⁻¹ *ᵥ v) := by
    rw [mulVec_mulVec, mul_nonsing_inv L hL, one_mulVec]
  rw [hv, maha_chol L hL]
  exact Finset.sum_nonneg fun i _ => mul_self_nonneg _

/-- cross term `vᵀ S⁻¹ w` -/
noncomputable def mahaCross (S : Matrix d d ℝ) (v w : d → ℝ) : ℝ := v ⬝ᵥ (S⁻¹ *ᵥ w)

theorem mahaCross_comm (S : Matrix d d ℝ) (hS : S.IsSymm) (v w : d → ℝ) : mahaCross S v w = mahaCross S w v := by
  unfold mahaCross
  have hinv : (S⁻¹)ᵀ = S⁻¹ := by rw [transpose_nonsing_inv, hS.eq]
  rw [dotProduct_mulVec, ← hinv, vecMul_transpose, dotProduct_comm, hinv]

/-- Crank–Nicolson exponent: `|w - a v|²_S = |w|² - 2a <v,w> + a² |v|²` for symmetric `S` -/
theorem maha_cn_expand (S : Matrix d d ℝ) (hS : S.IsSymm) (a : ℝ) (v w : d → ℝ) :
    maha S (w - a • v) = maha S w - 2 * a * mahaCross S v w + a ^ 2 * maha S v := by
  have hc := mahaCross_comm S hS v w
  unfold maha mahaCross at *
  rw [mulVec_sub, mulVec_smul, sub_dotProduct, dotProduct_sub, dotProduct_sub, smul_dotProduct, smul_dotProduct,
    dotProduct_smul, dotProduct_smul]
  simp only [smul_eq_mul]
  rw [← hc]; ring

omit [DecidableEq d] in
theorem isSymm_mul_transpose (L : Matrix d d ℝ) : (L * Lᵀ).IsSymm := by
  unfold Matrix.IsSymm; rw [transpose_mul, transpose_transpose]

end Lemmas.KernelGeom
