-- Root of the `TempestVerif` library: everything that `lake build` must check.
import TempestVerif.Sc
import TempestVerif.Props.C16
import TempestVerif.Props.C07
import TempestVerif.Props.C04
import TempestVerif.Props.C12
import TempestVerif.Props.C09
import TempestVerif.Props.C06
import TempestVerif.Props.C20
import TempestVerif.Props.C05
import TempestVerif.Props.C13
import TempestVerif.Props.C03
import TempestVerif.Props.C19
import TempestVerif.Props.C11
import TempestVerif.Props.C01
import TempestVerif.Props.C15
