#!/usr/bin/env python3
"""Rewrites the generated tables of DESIGN.md (between <!-- BEGIN x --> / <!-- END x --> markers) from
known_findings.json and seeded/*/meta.json."""
import json, os, glob, re
HERE = os.path.dirname(os.path.dirname(os.path.abspath(__file__)))
d = json.load(open(os.path.join(HERE, "known_findings.json")))

def esc(s): return str(s).replace("|", "\\|").replace("\n", " ")
rows = ["| id (witness) | property | status | what fails (input / call site) |", "|---|---|---|---|"]
for e in d["fixed"]:
    rows.append(f"| `{e['witness']}` | {e['property']} | fixed in `{e['commit']}` | {esc(e['what'])} |")
for e in d["known"]:
    rows.append(f"| `{e['witness']}` | {e['property']} | **known finding** (recorded, not repaired) | {esc(e['what'])} |")
findings = "\n".join(rows)

rows = ["| seeded change (independent sub-agent, given only the property text) | needs to manifest | suite with change | caught by |", "|---|---|---|---|"]
for m in sorted(glob.glob(os.path.join(HERE, "seeded", "*", "meta.json"))):
    j = json.load(open(m))
    logs = sorted(glob.glob(os.path.join(os.path.dirname(m), "check_*.log")))
    caught = []
    for lg in logs:
        txt = open(lg).read()
        c = os.path.basename(lg)[6:-4]
        v = [l for l in txt.splitlines() if l.startswith("VIOLATION")]
        if v:
            nf = "no-failing-input-found" in v[0]
            fi = [l.strip() for l in txt.splitlines() if "failing input on the real code" in l]
            what = ""
            if fi:
                mm = re.search(r'"what": "([^"]{0,160})', fi[0])
                what = (": " + mm.group(1)) if mm else ""
            caught.append(f"**{c}**" + (" (no-failing-input-found)" if nf else what))
        else:
            caught.append(f"{c}: not caught")
    run = j.get("what_was_run", {})
    suite = run.get("suite_with_change (tests, failing, names)", "")
    rows.append(f"| {j['property']}: {esc(j.get('breaks'))} | {esc(j.get('needs_to_manifest'))[:300]} | {esc(suite)[:60]} | {esc('; '.join(caught))} |")
seeded = "\n".join(rows)

rows = ["| property | level | Lean theorems audited | translators (regenerated each run) | correspondence suites (regime; quick-tier cases) | quick wall |", "|---|---|---|---|---|---|"]
man = json.load(open(os.path.join(HERE, "MANIFEST.json")))
for c in man["checks"]:
    pid = c["property_id"]
    try:
        ev = json.load(open(os.path.join(HERE, "evidence", pid + ".json")))
    except Exception:
        continue
    cov = ev["coverage"]
    tr = ", ".join(t["translator"] + ("" if t["status"] == "ok" else f" ({t['status']})") for t in cov.get("translators", [])) or "—"
    su = "; ".join(f"{x['suite']} ({x['regime'].split('(')[0].strip()}; {x['evaluations']})" for x in cov.get("correspondence", []))
    lvl = "proof" + (" (PARTIAL)" if "PARTIAL" in c["technique"] else "")
    rows.append(f"| {pid} | {lvl} | {len(cov.get('theorems', []))} | {tr} | {esc(su)} | {ev['wall_s']:.0f} s |")
checks = "\n".join(rows)

reach = ""
try:
    cm = json.load(open(os.path.join(HERE, "tools", "coverage_map.json")))
    t = cm["totals"]
    byfile = {}
    for r in cm["functions"]:
        f = byfile.setdefault(r["file"], [0, 0, []])
        f[0] += r["executed"]; f[1] += r["statements"]
        if r["executed"] < r["statements"]:
            f[2].append(f"`{r['function']}` {r['executed']}/{r['statements']}")
    rows = [f"Statements of `/repo/tempest` executed by the quick tier of all 20 checks together: **{t['executed']} of {t['statements']}**"
            f" (branches {t['branches_executed']} of {t['branches']}); measured with coverage.py by `tools/coverage_map.sh` (diagnostic, not part of any verdict).", "",
            "| file | statements reached (inside functions) | functions not fully reached (reached/total statements) |", "|---|---|---|"]
    for f, (e, n, miss) in sorted(byfile.items()):
        rows.append(f"| `{f}` | {e}/{n} | {esc(', '.join(miss)) or '—'} |")
    reach = "\n".join(rows)
except Exception as ex:
    reach = f"(no coverage map: {ex})"

p = os.path.join(HERE, "DESIGN.md")
s = open(p).read()
for tag, body in (("FINDINGS", findings), ("SEEDED", seeded), ("CHECKS", checks), ("REACH", reach)):
    a, b = f"<!-- BEGIN {tag} -->", f"<!-- END {tag} -->"
    if a in s:
        s = s[:s.index(a) + len(a)] + "\n" + body + "\n" + s[s.index(b):]
# per-property "as built" notes under each §6 heading
import re as _re
for c in man["checks"]:
    pid = c["property_id"]
    a, b = f"<!-- BEGIN ASBUILT {pid} -->", f"<!-- END ASBUILT {pid} -->"
    try:
        ev = json.load(open(os.path.join(HERE, "evidence", pid + ".json")))
        thms = [t.split(".")[-1] for t in ev["coverage"].get("theorems", []) if t.split(".")[-1].startswith(pid + "_")]
    except Exception:
        thms = []
    body = (f"> **As built.** {c['technique']}.\n>\n> {c['level_claimed']['text']}\n>\n"
            f"> Files: `lean/TempestVerif/Props/{pid}.lean`, `harness/{pid.lower()}.py`, `lean/TempestVerif/Drv/{pid}.lean`"
            f" (models and translators: see the imports of the Props file). Property-level theorems: "
            + (", ".join(f"`{t}`" for t in thms[:40]) or "see the Props file") + ".\n>\n"
            f"> The plan below is the round-0 text; where it differs from this note, this note is what exists.")
    if a in s:
        s = s[:s.index(a) + len(a)] + "\n" + body + "\n" + s[s.index(b):]
    else:
        m = _re.search(rf"^### {pid} — .*$", s, _re.M)
        if m:
            s = s[:m.end()] + "\n\n" + a + "\n" + body + "\n" + b + "\n" + s[m.end():]
open(p, "w").write(s)
print("tables regenerated")
