#!/bin/sh
# tools/seedtest.sh <Cxx> <dir with patch_Cxx.diff demo_Cxx.py meta_Cxx.json> [checks to run, default Cxx]
# Confirms a seeded change (suite passes, demo fails with / passes without), then runs our checks against a scratch copy
# of /repo with the patch applied (TEMPEST_REPO), and files everything under /verif/seeded/<Cxx>/.
P="$1"; SRC="$2"; shift 2; CHECKS="${*:-$P}"
WT=$(mktemp -d /tmp/seedtest_XXXXXX)
cp -r /repo/tempest /repo/tests /repo/pyproject.toml "$WT"/ 2>/dev/null
OUT=/verif/seeded/$P${SEED_TAG:-}; mkdir -p "$OUT"
cp "$SRC/patch_$P.diff" "$OUT/patch.diff"; cp "$SRC/demo_$P.py" "$OUT/demo.py"; cp "$SRC/meta_$P.json" "$OUT/meta_agent.json"
cd "$WT" || exit 2
echo "== demo on the UNCHANGED copy"; PYTHONPATH="$WT" /venv/bin/python "$OUT/demo.py" > "$OUT/demo_clean.log" 2>&1; RC_CLEAN=$?; echo "rc=$RC_CLEAN"
patch -p1 -s < "$OUT/patch.diff" || { echo "patch does not apply"; rm -rf "$WT"; exit 3; }
echo "== demo WITH the change"; PYTHONPATH="$WT" /venv/bin/python "$OUT/demo.py" > "$OUT/demo_mut.log" 2>&1; RC_MUT=$?; echo "rc=$RC_MUT"; head -5 "$OUT/demo_mut.log"
echo "== existing suite WITH the change"
PYTHONPATH="$WT" /venv/bin/python -m pytest -q -p no:cacheprovider --timeout=900 -q --junitxml="$WT/j.xml" > "$WT/suite.log" 2>&1
SUITE=$(python3 -c "
import xml.etree.ElementTree as ET
r=ET.parse('$WT/j.xml').getroot(); ts=r if r.tag=='testsuite' else r[0]
bad=[tc.attrib['name'] for tc in ts.iter('testcase') if tc.find('failure') is not None or tc.find('error') is not None]
print(ts.attrib['tests'], len(bad), ','.join(sorted(bad)))")
echo "suite: $SUITE"
RES=""
for C in $CHECKS; do
  echo "== check $C against the changed copy"
  VERIF_EVIDENCE_DIR="$WT/evidence" TEMPEST_REPO="$WT" /verif/check "$C" --tier quick > "$OUT/check_$C.log" 2>&1; RC=$?
  grep -E "^VIOLATION|failing input|^C[0-9]+ tier" "$OUT/check_$C.log" | cut -c1-300
  RES="$RES $C:rc=$RC"
done
cd /verif; rm -rf "$WT"
# regenerate Gen/ files from the real tree
for C in $CHECKS; do TEMPEST_REPO=/repo PYTHONPATH=/verif /venv/bin/python -c "
import importlib,sys
sys.path.insert(0,'/repo')
m=importlib.import_module('harness.$(echo $C | tr A-Z a-z)')
[g for g in getattr(m,'translators',lambda:[])()]" ; done
python3 - "$OUT" "$P" "$RC_CLEAN" "$RC_MUT" "$SUITE" "$RES" <<'PY'
import json,sys
out,p,rc_clean,rc_mut,suite,res=sys.argv[1:7]
meta=json.load(open(out+'/meta_agent.json'))
json.dump({"property":p,"breaks":meta.get("summary"),"needs_to_manifest":meta.get("needs_to_manifest"),
 "what_was_run":{"demo_on_unchanged_copy_rc":int(rc_clean),"demo_with_change_rc":int(rc_mut),
   "suite_with_change (tests, failing, names)":suite,"our_checks":res.strip()},
 "confirmed": int(rc_clean)==0 and int(rc_mut)!=0}, open(out+'/meta.json','w'), indent=1)
print(open(out+'/meta.json').read())
PY
