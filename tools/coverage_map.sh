#!/bin/sh
# tools/coverage_map.sh [tier] — runs every check under coverage.py (statement coverage of /repo/tempest by OUR correspondence /
# witness runs) and writes tools/coverage_map.json + a per-function table (consumed by gen_design_tables.py).
# Diagnostic only: never part of a verdict. Evidence is redirected so that nothing in evidence/ is touched.
TIER="${1:-quick}"
D=$(mktemp -d /tmp/covmap_XXXXXX)
cd /verif || exit 2
for C in C01 C02 C03 C04 C05 C06 C07 C08 C09 C10 C11 C12 C13 C14 C15 C16 C17 C18 C19 C20; do
  ( COVERAGE_FILE="$D/.coverage.$C" VERIF_EVIDENCE_DIR="$D/ev" /venv/bin/python -m coverage run --source=/repo/tempest --branch -m harness.main "$C" --tier "$TIER" > "$D/$C.log" 2>&1; echo "$C rc=$?" ) &
  # four at a time
  while [ "$(jobs -r | wc -l)" -ge 5 ]; do sleep 1; done
done
wait
cd "$D" && /venv/bin/python -m coverage combine -q .coverage.* && /venv/bin/python -m coverage json -q -o cov.json
/venv/bin/python - "$D/cov.json" <<'PY'
import json, sys, ast, os
cov = json.load(open(sys.argv[1]))
rows = []
for path, fd in sorted(cov["files"].items()):
    rel = os.path.relpath(path, "/repo")
    ex, miss = set(fd["executed_lines"]), set(fd["missing_lines"])
    tree = ast.parse(open(path).read())
    def fn(node, qual):
        lines = set(range(node.lineno, node.end_lineno + 1))
        e, m = len(lines & ex), len(lines & miss)
        if e + m:
            rows.append({"file": rel, "function": qual, "statements": e + m, "executed": e,
                         "missing_lines": sorted(lines & miss)})
    for n in tree.body:
        if isinstance(n, ast.FunctionDef):
            fn(n, n.name)
        elif isinstance(n, ast.ClassDef):
            for m_ in n.body:
                if isinstance(m_, ast.FunctionDef):
                    fn(m_, f"{n.name}.{m_.name}")
tot = cov["totals"]
out = {"totals": {"statements": tot["num_statements"], "executed": tot["covered_lines"], "branches": tot.get("num_branches"),
                  "branches_executed": tot.get("covered_branches")}, "functions": rows}
json.dump(out, open("/verif/tools/coverage_map.json", "w"), indent=1)
print(out["totals"])
for r in rows:
    if r["executed"] < r["statements"]:
        print(f'{r["file"]}:{r["function"]} {r["executed"]}/{r["statements"]} missing {r["missing_lines"][:12]}')
PY
rm -rf "$D"
