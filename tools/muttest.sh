#!/bin/sh
# tools/muttest.sh <Cxx> <python-edit-script-or-patch> : run a check against a mutated scratch copy of /repo
# usage: tools/muttest.sh C07 'file' 'old' 'new'
P="$1"; F="$2"; OLD="$3"; NEW="$4"
WT=$(mktemp -d /tmp/mut_XXXXXX)
cp -r /repo/tempest "$WT/tempest"
python3 - "$WT/$F" "$OLD" "$NEW" <<'PY'
import sys
p,old,new=sys.argv[1:4]
s=open(p).read()
assert s.count(old)>=1, "pattern not found"
open(p,'w').write(s.replace(old,new,1))
PY
[ $? -eq 0 ] || { rm -rf "$WT"; exit 3; }
VERIF_EVIDENCE_DIR="$WT/evidence" TEMPEST_REPO="$WT" /verif/check "$P" --tier quick 2>&1 | grep -v "depends on\|does not depend" | cut -c1-400 | tail -9
rm -rf "$WT"
# restore generated files from the real tree
TEMPEST_REPO=/repo PYTHONPATH=/verif /venv/bin/python -c "
import importlib,sys
sys.path.insert(0,'/repo')
m=importlib.import_module('harness.$(echo $P | tr A-Z a-z)')
[print('regen',g[:2]) for g in getattr(m,'translators',lambda:[])()]"
