#!/bin/sh
# tools/benign_matrix.sh <id> <patch> [checks...] : apply a (supposedly behaviour-preserving) patch to a scratch copy of /repo and run
# the given checks (default: all 20) against it from a private copy of the verif tree (ISO_SRC); one line per check.
ID="$1"; PATCH="$2"; shift 2
CHECKS="${*:-C01 C02 C03 C04 C05 C06 C07 C08 C09 C10 C11 C12 C13 C14 C15 C16 C17 C18 C19 C20}"
HERE="$(cd "$(dirname "$0")" && pwd)"
W=$(mktemp -d /tmp/bm_XXXXXX); cp -r /repo/tempest "$W"/
(cd "$W" && patch -p1 -s < "$PATCH") || { echo "$ID patch-does-not-apply"; rm -rf "$W"; exit 3; }
OUT="${BENIGN_OUT:-/tmp/benign}/$ID"; mkdir -p "$OUT"
for c in $CHECKS; do echo $c; done | xargs -P 5 -I{} "$HERE/benign_one.sh" "$W" {} "$ID" "$OUT"
rm -rf "$W"
