#!/bin/sh
# tools/benign_one.sh <repo-copy> <Cxx> <id> <outdir> : one cell of the benign-refactor matrix
W="$1"; C="$2"; ID="$3"; OUT="$4"
HERE="$(cd "$(dirname "$0")" && pwd)"
"$HERE/isocheck.sh" "$W" "$C" quick "$OUT/$C.log" > "$OUT/$C.out" 2>&1
if grep -q "^VIOLATION.*no-failing-input-found" "$OUT/$C.log"; then
  echo "$ID $C ALARM no-failing-input-found: $(grep -m2 'broken obligation' "$OUT/$C.log" | cut -c1-170 | tr '\n' ' ')"
elif grep -q "^VIOLATION" "$OUT/$C.log"; then
  echo "$ID $C ALARM with-failing-input: $(grep -m1 'failing input' "$OUT/$C.log" | cut -c1-220)"
elif grep -q "INFRASTRUCTURE" "$OUT/$C.log"; then echo "$ID $C INFRA-ERROR $(grep -m1 INFRASTRUCTURE "$OUT/$C.log" | cut -c1-150)"
else echo "$ID $C quiet"; fi
