#!/venv/bin/python
"""tools/integrate.py C10 [C15 ...] : list the changed/untracked files that belong to the given properties' checks
(import closure of LEAN_MODULES + Drv handler, harness/cxx*.py, translators they import, clauses/Cxx.md) — the coordinator
stages exactly these when a worker reports completion."""
import sys, os, re, subprocess, importlib, glob
sys.path.insert(0, '/verif'); sys.path.insert(0, '/repo')
from harness import common
st = subprocess.run(['git', 'status', '--short'], cwd='/verif', capture_output=True, text=True).stdout
changed = {l[3:].strip() for l in st.splitlines()}
out = set()
for pid in sys.argv[1:]:
    c = pid.lower()
    m = importlib.import_module('harness.' + c)
    mods = list(m.LEAN_MODULES) + ['TempestVerif.Drv.' + pid.upper()]
    for k, f in common.import_closure(mods).items():
        out.add(os.path.relpath(f, '/verif'))
    hs = glob.glob(f'/verif/harness/{c}*.py')
    seen = set()
    while hs:
        h = hs.pop()
        if h in seen: continue
        seen.add(h)
        out.add(os.path.relpath(h, '/verif'))
        src = open(h).read()
        for t in re.findall(r'from translate import ([\w, ]+)', src):
            for name in t.split(','):
                out.add(f'translate/{name.strip()}.py')
        for t in re.findall(r'from \. import ([\w, ]+)', src):
            for name in t.split(','):
                p = f'/verif/harness/{name.strip()}.py'
                if os.path.exists(p): hs.append(p)
    out.add(f'clauses/{pid.upper()}.md')
    print(f'# {pid}: new Props modules:', ' '.join(x for x in m.LEAN_MODULES), file=sys.stderr)
print('\n'.join(sorted(f for f in out if f in changed)))
