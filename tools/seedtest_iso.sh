#!/bin/sh
# tools/seedtest_iso.sh <Cxx> <tag> <dir with patch_Cxx.diff demo_Cxx.py meta_Cxx.json> [checks to run, default Cxx]
# As seedtest.sh, but the checks run from a private copy of /verif (tools/isocheck.sh), so the shared Lean build and the
# generated files are never disturbed. Files everything under /verif/seeded/<Cxx><tag>/.
P="$1"; TAG="$2"; SRC="$3"; shift 3; CHECKS="${*:-$P}"
WT=$(mktemp -d /tmp/seedtest_XXXXXX)
cp -r /repo/tempest /repo/tests /repo/pyproject.toml "$WT"/ 2>/dev/null
OUT=/verif/seeded/$P$TAG; mkdir -p "$OUT"
cp "$SRC/patch_$P.diff" "$OUT/patch.diff"; cp "$SRC/demo_$P.py" "$OUT/demo.py"; cp "$SRC/meta_$P.json" "$OUT/meta_agent.json"
cd "$WT" || exit 2
PYTHONPATH="$WT" /venv/bin/python "$OUT/demo.py" > "$OUT/demo_clean.log" 2>&1; RC_CLEAN=$?; echo "demo unchanged rc=$RC_CLEAN"
patch -p1 -s < "$OUT/patch.diff" || { echo "patch does not apply"; rm -rf "$WT"; exit 3; }
PYTHONPATH="$WT" /venv/bin/python "$OUT/demo.py" > "$OUT/demo_mut.log" 2>&1; RC_MUT=$?; echo "demo with change rc=$RC_MUT"
PYTHONPATH="$WT" /venv/bin/python -m pytest -q -p no:cacheprovider --timeout=900 -q --junitxml="$WT/j.xml" > "$WT/suite.log" 2>&1
SUITE=$(python3 -c "
import xml.etree.ElementTree as ET
r=ET.parse('$WT/j.xml').getroot(); ts=r if r.tag=='testsuite' else r[0]
bad=[tc.attrib['name'] for tc in ts.iter('testcase') if tc.find('failure') is not None or tc.find('error') is not None]
print(ts.attrib['tests'], len(bad), ','.join(sorted(bad)))")
echo "suite: $SUITE"
rm -f "$WT/j.xml" "$WT/suite.log"; rm -rf "$WT/tests"
RES=""
for C in $CHECKS; do
  /verif/tools/isocheck.sh "$WT" "$C" quick "$OUT/check_$C.log" | cut -c1-300; 
  RC=$(grep -q "^VIOLATION" "$OUT/check_$C.log" && echo 1 || echo 0)
  RES="$RES $C:rc=$RC"
done
cd /verif; rm -rf "$WT"
python3 - "$OUT" "$P" "$RC_CLEAN" "$RC_MUT" "$SUITE" "$RES" <<'PY'
import json,sys
out,p,rc_clean,rc_mut,suite,res=sys.argv[1:7]
meta=json.load(open(out+'/meta_agent.json'))
json.dump({"property":p,"breaks":meta.get("summary"),"needs_to_manifest":meta.get("needs_to_manifest"),
 "what_was_run":{"demo_on_unchanged_copy_rc":int(rc_clean),"demo_with_change_rc":int(rc_mut),
   "suite_with_change (tests, failing, names)":suite,"our_checks":res.strip()},
 "confirmed": int(rc_clean)==0 and int(rc_mut)!=0}, open(out+'/meta.json','w'), indent=1)
print("confirmed:", int(rc_clean)==0 and int(rc_mut)!=0, "checks:", res)
PY
