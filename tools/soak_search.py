#!/venv/bin/python
"""tools/soak_search.py Cxx [tier] : run the failing-input SEARCH of a property on the UNCHANGED tree (it normally runs only after an
obligation broke, so it is otherwise never exercised on correct code).  Every failing input it returns that is not a recorded known
finding is a false alarm of the search oracle (or a genuine defect) — exit 1 and print it."""
import sys, os, json, importlib, time
sys.path.insert(0, '/verif'); sys.path.insert(0, os.environ.get('TEMPEST_REPO', '/repo'))
os.environ.setdefault('TEMPEST_VERIF', '1')
from harness import common
from harness.main import _jsonable
pid = sys.argv[1].upper(); tier = sys.argv[2] if len(sys.argv) > 2 else 'quick'
mod = importlib.import_module('harness.' + pid.lower())
known = {e['witness'] for e in common.load_known().get('known', [])}
t0 = time.time()
found = mod.search(tier, [])
new = [f for f in found if not (f.get('witness') in known or f.get('known_id') in known)]
print(f"{pid} seed={common.seed()} search returned {len(found)} failing input(s), {len(new)} not attributed to a known finding, {time.time()-t0:.0f}s")
for f in new[:3]:
    print("  ", json.dumps(_jsonable(f))[:700])
sys.exit(1 if new else 0)
