#!/bin/sh
# tools/multiseed.sh "<seeds>" "<checks>" [tier] : run checks on the clean tree with several seeds; evidence goes to a scratch dir
SEEDS="$1"; CHECKS="$2"; TIER="${3:-quick}"
OUT=$(mktemp -d /tmp/ms_XXXXXX)
for S in $SEEDS; do for C in $CHECKS; do
  VERIF_SEED=$S VERIF_EVIDENCE_DIR=$OUT/ev /verif/check $C --tier $TIER > $OUT/$C.$S.log 2>&1; RC=$?
  echo "seed=$S $C rc=$RC $(tail -1 $OUT/$C.$S.log | cut -c1-160)"
  [ $RC -ne 0 ] && grep -E "VIOLATION|broken obligation|INFRA" $OUT/$C.$S.log | cut -c1-400
done; done
