#!/bin/sh
# tools/isocheck.sh <repo-copy-dir> <Cxx> [tier] [logfile]
# Run one check against a (mutated / patched) scratch copy of the repository FROM A PRIVATE COPY OF /verif, so that the
# regenerated Gen/*.lean files and rebuilt .olean files never touch the shared library other workers are using.
# Prints the verdict lines; the full log goes to <logfile> (default: discarded with the copy).
R="$1"; P="$2"; TIER="${3:-quick}"; LOG="$4"
HERE="${ISO_SRC:-$(cd "$(dirname "$0")/.." && pwd)}"
ISO=$(mktemp -d /tmp/iso_XXXXXX)
rsync -a --exclude .git --exclude evidence --exclude seeded --exclude replays --exclude '__pycache__' "$HERE"/ "$ISO"/verif/
VERIF_EVIDENCE_DIR="$ISO/evidence" TEMPEST_REPO="$R" "$ISO/verif/check" "$P" --tier "$TIER" > "$ISO/log" 2>&1; RC=$?
grep -E "^VIOLATION|failing input|broken obligation|INFRASTRUCTURE|KNOWN-FINDING|^C[0-9]+ tier" "$ISO/log" | cut -c1-400 | head -20
[ -n "$LOG" ] && cp "$ISO/log" "$LOG"
rm -rf "$ISO"
echo "isocheck $P rc=$RC"
exit $RC
