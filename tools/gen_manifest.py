#!/usr/bin/env python3
"""Regenerates MANIFEST.json from the table below (kept in one place so it stays valid)."""
import json, os
HERE = os.path.dirname(os.path.dirname(os.path.abspath(__file__)))
ASSUME = ("Trusted: Lean 4.33 kernel + Mathlib (axioms propext, Classical.choice, Quot.sound only; audited per theorem), "
          "the hand-written model's correspondence harness (differential run of model driver vs real code in-process), "
          "translators under translate/. Theorems are in exact real arithmetic; IEEE rounding, numpy/scipy/dill internals "
          "and the OS are modelled or assumed, see DESIGN.md §3.3/§5 and the evidence file's modelled_not_verified list.")
CLAIMED = {
 # id: (technique, level text, design_ref)
 "C16": ("Lean 4 proof over a Sc-polymorphic model of apply_boundary_conditions/check_bounds + exact-dyadic (Rat) and bit-exact (Float) differential correspondence",
         "Theorems for every real x, every index list and every point: periodic = value mod 1 in [0,1), reflective = period-2 triangle fold in [0,1] (even, period 2, identity on [0,1]), idempotence, untouched coordinates, check_bounds iff, folded random-walk kernels symmetric. The same model term is executed at Rat and Float and compared exactly / bit-for-bit with the real functions on adversarial doubles, so a change of the code's function breaks the correspondence.",
         "DESIGN.md §6 C16"),
}
CLAIMED.update({
 "C04": ("Lean 4 proof at ℝ over the ScT-polymorphic model of compute_logw_and_logz + toleranced Float correspondence on generated histories and real runs",
         "Theorems for every well-formed history (T>=1, n_t>=1, any beta_t, z_t, logl): the max-shifted logaddexp fold equals log-sum-exp, logw = beta*l - log sum_t (n_t/N) exp(beta_t l - z_t), logz = log mean weight, normalised weights sum to one, permutation invariance of iterations, the shift law, uniformity at beta=0, exp arguments <= 0 and explicit bounds (finiteness in exact arithmetic). The model term runs at Float against the real StateManager within 1e-9(1+scale).",
         "DESIGN.md §6 C04"),
 "C07": ("Lean 4 induction over pipeline op sequences on a struct-of-arrays model whose field tables are regenerated from source (AST translator G5) + exact tagged-particle correspondence on the real Mutator/Resampler/StateManager",
         "C07_reachable: for every sequence of prior draws, -inf replacements, resamplings, accept/reject steps and commits, every current particle and every committed batch is a coherent (u, x=T(u), (logl,blob)=L(x)) record, given that each movement site applies its index/mask to all four arrays — the obligation C07_tables_complete, decided on tables regenerated from /repo on every run. Real components driven with tagged particles and injected randomness must reproduce the model's tag arrays exactly.",
         "DESIGN.md §6 C07"),
 "C12": ("Lean 4 proof of the run-loop exit condition and of posterior() row alignment over tables/constants regenerated from source (G1, G5) + exact correspondence on all 16 option combinations and a bit-exact Float guard",
         "C12_run_post: whenever run() returns, 1-beta < the regenerated tolerance (= double 1e-4), ESS >= n_total and evidence = Z(1) of the final history; C12_posterior_aligned: for all option combinations and any trimming/resampling routines returning as many weights as indices, all returned arrays have one length and each row is one history particle in x, logl, blobs and logw alike; weights normalised / uniform under resampling. Termination itself is not claimed.",
         "DESIGN.md §6 C12"),
})
CLAIMED.update({
 "C06": ("Lean 4 proof at ℝ (incl. Lebesgue integrals over the offset) on the Sc-polymorphic model of systematic_resample and numpy's legacy choice + exact-dyadic (complete offset partition) and bit-exact Float correspondence",
         "For every n, every weight vector and every offset: exactly n indices, all in range, non-decreasing (no assumption on the sum); the loop returns the least covering cell (spec lemma); with sum exactly 1 the closed-form count, the floor/ceil law and unbiasedness (indicator decomposition and integral = n*w_j); the renormalised and deficit cases stated precisely; multinomial cell law and its integral. Real systematic_resample / np.random.choice / Resampler.run / posterior(resample) are compared with the Rat model on the complete finite partition of the offset and bit-for-bit with the Float model.",
         "DESIGN.md §6 C06"),
 "C09": ("Lean 4 theorems about effect programs over an abstract generator + decide-obligations on the RNG effect table regenerated from source (AST translator G3) + dynamic call-site cross-check and exact seeded-run / no-reset observations",
         "Programs without seeding are injective in the ambient generator state, a constant reseed forgets it, a run that first seeds with the user's random_state is a function of that seed alone; obligations decided on the regenerated table: no literal seed, no literal reaching a global seed through a constructor attribute, all seed arguments user-driven, no unknown RNG source, run seeds before its first draw. Dynamic twin: observed numpy.random call sites are a subset of the table; same random_state twice is bit-identical, different ones differ; after every library operation the global stream still depends on the ambient seed.",
         "DESIGN.md §6 C09"),
})
CLAIMED.update({
 "C05": ("Lean 4 proof at ℝ for EVERY metric oracle (no monotonicity assumed) over the Sc-polymorphic model of Reweighter.run + exact Rat / bit-exact Float correspondence with a table-driven oracle injected into the real Reweighter, and replay of real runs",
         "For every oracle, every beta_prev in [0,1]: the ESS upper limit lies in [beta_prev,1] and, if it moved, has ESS >= target (loop invariant; 14 halvings suffice so fuel never decides); ESS mode: beta in [beta_prev, beta_upper] and advancing implies ESS >= target (the bisection branch is dead code); volume mode: never beyond the ESS-limited temperature; in all branches the returned weights, recorded ESS and recorded evidence are the oracle's at the SAME beta that is written to state; schedule starts at 0 and is monotone in [0,1]. The real Reweighter with an injected table oracle must reproduce the model's decisions, oracle-call sequence and state exactly.",
         "DESIGN.md §6 C05"),
 "C13": ("Lean 4 proof over dispatch/accounting tables regenerated from source (AST translator G6) + exact paired-run and counting-likelihood correspondence",
         "For every pool setting dispatch succeeds; if a vectorised likelihood is pointwise the scalar one and a pool's map preserves input order, every strategy hands the algorithm identical values (C13_dispatch, C13_transparent); for any sequence of warm-up and mutation iterations calls == points evaluated, given that each counting site advances by the size of the batch evaluated there (obligation decided on the regenerated table). Real seeded runs under scalar / vectorised / reversed / shuffled / threaded / lazy pools and pool=1 must be bit-identical and an instrumented likelihood must agree with state['calls'] and the model after every iteration.",
         "DESIGN.md §6 C13"),
 "C20": ("Lean 4 proof at ℝ (Cauchy-Schwarz on lists; numpy's linear percentile on a merge-sorted list; Mathlib matrices for the volume metric) + exact Rat, bit-exact Float and toleranced correspondence",
         "ESS in [1,N], scale invariant, N for uniform weights, compute_ess = ESS/N and shift invariant; trimming returns exactly the upper set {w_i >= theta} with samples and weights selected by one mask, normalised, ESS(trimmed) >= ess*ESS(all), maximal on the grid, and the loop always stops by i = 0; the volume-variation metric is non-negative, weight-scale invariant and invariant under invertible affine maps when the weighted covariance has full rank (the regularised branch is not, stated). np.percentile / np.linspace are matched bit for bit by the model; real trim_weights is compared exactly on dyadic inputs.",
         "DESIGN.md §6 C20"),
})
CLAIMED.update({
 "C03": ("Lean 4 proof at ℝ (rpow identities, Bochner integral over the mixing scale, tsum re-indexing for folded kernels) over kernel expressions regenerated from source (AST translator G4) with bridging obligations + toleranced one-step correspondence on the real runners under taped randomness",
         "Interior detailed balance for both kernels for every state pair and all (mu, Sigma, nu, sigma, beta, d): the tpCN integrand t*IG*N_s is symmetric for every s>0 hence the proposal is reversible w.r.t. the Student-t, the generated acceptance is the Metropolis-Hastings ratio; RWM with periodic coordinates (any dimension, correlated increments) and with reflective coordinates when the increment density is even in each reflective coordinate. Machine-checked NEGATIONS document the three recorded findings (truncation by redraw at hard walls, tpCN Student-t ratio at folded points, reflective + correlated covariance). The scalar kernel expressions are regenerated from mcmc.py on every run and proved equal to the canonical model; the real runners must reproduce the Float one-step model.",
         "DESIGN.md §6 C03"),
 "C19": ("Lean 4 proof at ℝ with Mathlib matrices (affine invariance of the Mahalanobis form, induction over the ECME loop with an uninterpreted nu-update) + toleranced replay of the real fit's iterates by an executable Float twin",
         "For every invertible affine map the loop body and the whole loop are equivariant; with the initialisation this gives equivariance of the fit under per-coordinate scaling (either sign), translation and permutation; every iterate keeps the location a convex combination of the data (inside the bounding box) and the scale matrix symmetric positive definite for non-degenerate data; nu in (0,inf] given the bisect bracket; non-finite dof (inf or nan) is replaced by the fallback exactly then. Recovery of generating parameters is statistical and only covered by the fixed-seed witness of the repaired defect (nu was always inf). The real fit_mvstud's nu tape is replayed through the Float twin, which must reproduce every (mu, Sigma) iterate.",
         "DESIGN.md §6 C19"),
})
CLAIMED.update({
 "C11": ("Lean 4 proof at ℝ on a linear-space (Rat-executable) model of the warm-up phase + scripted-batch correspondence on the real Sampler",
         "For any number of prior-sampling iterations and any batches: if the first warm-up batch had -inf draws and every such batch has a finite fraction in [lo,hi], every recorded warm-up evidence lies in [lo,hi] (exactly f when all fractions equal f): the fraction is counted once, nothing compounds (the history-based estimate is a weighted harmonic mean); replacement of -inf draws by copies of finite ones leaves only finite log-likelihoods. The repaired compounding rule and the all-inf batch (known finding F8) are stated as theorems about the old / excluded behaviour. Real warm-up iterations with scripted numbers of finite draws must reproduce the Rat model's evidence.",
         "DESIGN.md §6 C11"),
 "C15": ("Lean 4 proof (list induction for the split loop; real algebra for the M-step) on executable models of the EM M-step / initialisation and of the hierarchical split loop driven by recorded decisions + toleranced and exact correspondence",
         "Hierarchical model: the cluster list stays a partition of the training indices, every point gets exactly one label < K, K <= max_iterations+1, no accepted split has a child below min_points, argmax/argmin predictions are < K. M-step: mixing weights on the simplex, covariances symmetric PSD (diag >= 0), means convex combinations inside the bounding box for components with S_k >= tiny, integer weights equivalent to replication (weights, means, covariances incl. the +eps terms), initial responsibilities rows on the simplex. The whole-fit statement is conditional on finite non-negative responsibilities (scipy's density is outside the model). Real _m_step/_e_step/_initialize_parameters vs Float model; real HierarchicalGaussianMixture.fit replayed decision by decision.",
         "DESIGN.md §6 C15"),
})
CLAIMED.update({
 "C01": ("PARTIAL — Lean 4 proofs of the exact-arithmetic skeleton (balance-heuristic identity on finite spaces, kernel invariance, mean-field recursion, structural facts of the pipeline model) + whole-pipeline trace replay tying the composed step models to the real sampler",
         "Proved: with batches at their nominal tempered laws and exact normalisers the mixture-importance estimator is exactly unbiased for the tempered integrals (mean unnormalised weight = Z_beta, ratio = posterior mean), also with a likelihood vanishing on part of the prior given one beta=0 batch; a reversible kernel keeps the tempered law; the mean-field recursion keeps every batch at its nominal law for any schedule; in the pipeline model the weights handed to resampling, the beta of every accept/reject step and the committed (beta, logz) belong to one beta, and each iteration appends one batch. NOT a theorem: a rate for the finite-particle deviation (the statement's allowance) — hence partial. Tie: real runs with all randomness observed are replayed by the Lean pipeline model (composition of the C04/C20/C05/C06/C03/C11/C07 models), which must reproduce beta, ESS, logZ, resampled indices, accept masks and committed batches.",
         "DESIGN.md §6 C01"),
 "C02": ("PARTIAL — Lean 4 proofs (unbiasedness of the evidence estimator under nominal laws, evidence() = log mean weight at beta=1, recorded logz = estimate at the recorded beta, RNG dataflow re-exported from C09) + evidence trace replay and seed-sensitivity observations",
         "Proved: E[mean unnormalised weight] = Z_beta under the nominal batch laws; the final evidence of the pipeline model is log((1/N) sum exp logw) at beta=1 over the whole history; each recorded logz is the estimator evaluated on the history available then; no library operation forgets the ambient seed, seeded runs are functions of the seed. NOT theorems: finite-N bias/variance bounds and statistical independence — hence partial. Tie: per-iteration and final evidence of real runs reproduced by the pipeline model; differently seeded runs (clustering on/off) give different evidence.",
         "DESIGN.md §6 C02"),
 "C08": ("Lean 4 proof on a byte-prefix crash model of the file system and a map model of save/load/resume, with the save protocol / load method / cadence regenerated from source (AST translator G7) + exact round-trip, cadence, protocol-trace and crash-injection correspondence",
         "tempRename protocol: in EVERY crash state (every op prefix, every byte offset of the last write) the final name holds the old content or the complete payload, hence is absent or loadable; the direct protocol is not (documented witness); a trace classified tempRename has the shape the theorem needs — obligation decided on the op list regenerated from save_sampler_state; load(fresh, save s) restores current and history exactly (defaults only where s had None), resume continues iter/calls and keeps the restored history as a prefix; periodic checkpoints exactly at t0 + j*k plus the final one; pool detached and always re-attached. Real saves are traced (open/write/flush/fsync/replace) and killed at op boundaries and byte offsets in child processes.",
         "DESIGN.md §6 C08"),
 "C10": ("Lean 4 proof at ℝ on the whole-iteration pipeline model (induction over iterations, using the C04 shift law, the C05 oracle-congruence and the regenerated acceptance expression) + paired real runs and shifted trace replay",
         "C10_run: for every tape, every configuration of the pipeline model and every constant c, running on log-likelihoods shifted by c gives the same schedule, ESS, resampled indices, accept masks and particles, every committed log-likelihood shifted by c, every recorded evidence by beta_t*c and the final evidence by exactly c (also the failing outcomes coincide). Real paired runs (kernel x resampler x clustering x metric mode, c up to +-1000) must agree within 1e-8 with a c/2, 2c re-test against rounding-induced flips; runs with shifted likelihoods are replayed by the pipeline model.",
         "DESIGN.md §6 C10"),
 "C14": ("Lean 4 proof on list models of label-to-mode lookup and of the clustering cadence state machine + exact correspondence on the real ModeStatistics / Mutator / Trainer / Resampler and on real runs",
         "For every training label vector and EVERY raw assignment the mapped mode index is < K, the relabelled assignment is a present label and the mode at that index was built from exactly the training particles of that label (identity when the label is present); for every cluster_every >= 1, every beta schedule and every resume point no predict precedes the first fit; cap K <= n_max_clusters given C15's bound; a constructed mode object has inverse and Cholesky factor. The old raw-index lookup and the old cadence are kept as documented counter-examples of the two repaired defects.",
         "DESIGN.md §6 C14"),
 "C17": ("Lean 4 invariant proof by induction over op sequences on a reference-level (heap + ghost sets) model of StateManager + exact state-machine differential on random op sequences and on real sampler iterations with scribbling",
         "Inv (every internally reachable array is disjoint from every array ever returned to the caller, except arrays stored on request with copy=False) holds after every op sequence of the full alphabet; hence any observation is independent of scribbling on returned arrays (C17_full: traces with and without scribbles coincide); a commit appends exactly one entry per recorded non-None key and nothing else; old history is a payload-prefix of new history for every op but import. Real StateManager and the model run the same random op sequences (incl. malformed ops) and must print identical digests of all observable reads after every op.",
         "DESIGN.md §6 C17"),
 "C18": ("Lean 4 proof about the validation rule table, constructor order table and clusterer wiring regenerated from source (AST translator G2), with a Python-semantics interpreter over a typed value universe + exact correspondence on thousands of generated configurations and a covering array checked in Lean and executed",
         "SamplerConfig accepts iff the documented constraints hold (and types are sane): every violation — alone or combined — is rejected, nothing valid is rejected; rejection happens in the constructors before any likelihood call (decided on the regenerated call table); wiring of the clusterer parameters is sound. The pairwise / 3-wise covering arrays the harness executes are verified in Lean by decide. 'Every valid combination runs to completion' is execution only (partial): all covering rows must finish and meet the run postconditions; the residual degenerate-cluster crash of tiny populations is the recorded known finding F24.",
         "DESIGN.md §6 C18"),
})
# added by the clause-audit round (see clauses/<id>.md for the clause -> theorem -> suite -> status matrix of each property)
APPEND = {
 "C03": " Clause round: the quadratic forms the runners compute are proved to be the model's scalars (delta >= 0 from Sigma = L L^T, CN exponent = noise norm), every per-mode array is indexed by the walker's own assignment (decided on a regenerated index table), a step keeps the state inside the cube, mixed hard/periodic/reflective coordinates, sigma in [0, 0.99] after every adaptation; the ensemble step (gather by assignment, per-cluster adaptation) is inside the model.",
 "C04": " Clause round: a rounded-arithmetic instance (every operation followed by an arbitrary rounding with relative error u and absolute error eta below Omega) of the SAME model term proves that exp is only called on arguments <= 0, log only on [1/2, 3], and all outputs are bounded (hence finite) for |logl|, |z| up to 1e6 — under the standard rounding model of IEEE + libm, which is an assumption.",
 "C05": " Clause round: in ESS mode the schedule clauses are proved on the concrete pipeline model for every tape (beta_0 = 0, monotone, in [0,1], advanced => recorded pool ESS >= target; beta = 0 while pool <= target), tightness of the ESS-limited temperature, generated tolerances; direct-call suites reach the bisection arms that run() provably never executes.",
 "C06": " Clause round: counts and means for EVERY sum of the effective weights (bias bound n|sum - 1|, the tolerance band the routine accepts), unbiasedness in the renormalising branch, the n-draw multinomial expectation over the product measure, numpy's pairwise np.sum inside the model (bit-exact), Resampler.run and posterior(resample=True) as model functions with length/range/monotonicity theorems.",
 "C08": " Clause round: StateManager.save_state / load_state / from_dict are translated (second G7 program), proved crash-safe for every final name (temp name = name + '.temp', injective), restored exactly / merged as documented, and exercised by round-trip and crash-injection suites on the real functions.",
 "C11": " Clause round: the replacement step, the no -inf-accepted rule of the MCMC step and the warm-up evidence are proved on the executable pipeline model (any number of iterations), the first recorded evidence is exactly unbiased for the supported prior mass over i.i.d. draws, and whole real runs with -inf regions are replayed through warm-up and annealing.",
 "C12": " Clause round: compute_posterior is modelled whole (C20 trimming + C06 systematic resampling): for every non-empty history, every option combination, every ess_trim and bins it never raises, rows stay aligned, weights are normalised / exactly uniform; the guard's ESS is the ESS of the returned untrimmed weights; the lattice covers every documented blob form.",
 "C14": " Clause round: argmin inside the model (index < K without assumption), training labels and active assignments come from the same fit generation in every reachable state, positive dof from C19's range and the generated fallback, cap from C15's theorem and the modelled wiring, positive definiteness from the LAPACK Cholesky contract checked on the real constructor.",
 "C16": " Clause round: preimage completeness, the preimage sum is the density of the law of fold(x + xi) (Lebesgue lintegral push-forward), kernel reversibility for even increments, the whole-vector statement for mixed coordinates (hypothesis sharp: F21), and a rounded-arithmetic instance proving idempotence modulo the periodic end points 0 ~ 1 for any monotone idempotent rounding.",
 "C17": " After the repair of update_from_dict/from_dict (copies), import is no longer an aliasing opt-in: C17_import_never_aliases; re-importing an exported dictionary and scribbling on it afterwards is covered by C17_full.",
}
NOT_YET = {}
props = [json.loads(l) for l in open(os.path.join(HERE, "properties.jsonl"))]
checks, na = [], []
for p in props:
    i = p["id"]
    if i in CLAIMED:
        tech, text, ref = CLAIMED[i]
        text = text + APPEND.get(i, "")
        checks.append({
            "property_id": i,
            "quick_cmd": f"./check {i} --tier quick",
            "thorough_cmd": f"./check {i} --tier thorough",
            "evidence_file": f"evidence/{i}.json",
            "replay_cmd_template": f"./check {i} --replay {{path}}",
            "engine": "lean4-proof+correspondence",
            "level_claimed": {"category": "proof", "text": text, "design_ref": ref},
            "level_note": ASSUME,
            "technique": tech,
        })
    else:
        na.append({"property_id": i, "reason": NOT_YET.get(i, "check not built yet in this round (Lean model + correspondence in progress); not claimed until both exist")})
m = {
 "version": 1,
 "setup_cmd": "cd lean && lake build TempestVerif driver && cd .. && /venv/bin/python -m compileall -q harness translate",
 "hooks": {"guard": "TEMPEST_VERIF", "enable": "no source hooks: the harness intercepts numpy.random attributes, builtins.open/os.replace and bound methods in-process; the variable is reserved (set to 1 by ./check)",
           "baseline_off_cmd": "cd /repo && /venv/bin/python -m pytest -ra -q -p no:cacheprovider --timeout=900 --continue-on-collection-errors",
           "source_commits": [], "add_only": True},
 "engines": [{"name": "lean4-proof+correspondence", "path": "lean/ harness/ translate/ check",
              "serves_properties": sorted(CLAIMED), "kind_free_text": "Lean 4 + Mathlib theorems about executable models; models tied to /repo by AST translators (regenerated each run) and differential correspondence through a compiled line-protocol driver"}],
 "checks": checks,
 "not_applicable": na,
 "notes": "Fix commits in /repo and recorded findings: known_findings.json. See DESIGN.md.",
}
json.dump(m, open(os.path.join(HERE, "MANIFEST.json"), "w"), indent=1)
print("claimed", len(checks), "not_applicable", len(na))
