#!/usr/bin/env python3
"""Regenerates MANIFEST.json from the table below (kept in one place so it stays valid)."""
import json, os
HERE = os.path.dirname(os.path.dirname(os.path.abspath(__file__)))
ASSUME = ("Trusted: Lean 4.33 kernel + Mathlib (axioms propext, Classical.choice, Quot.sound only; audited per theorem), "
          "the hand-written model's correspondence harness (differential run of model driver vs real code in-process), "
          "translators under translate/. Theorems are in exact real arithmetic; IEEE rounding, numpy/scipy/dill internals "
          "and the OS are modelled or assumed, see DESIGN.md §3.3/§5 and the evidence file's modelled_not_verified list. "
          "The per-clause status (PROVED / PROVED-UNDER-H / ORACLE-ONLY / NOT-COVERED, with every remaining hypothesis named) "
          "lives in clauses/<id>.md.")
# Texts rewritten after the clause audits: they describe what is proved and tied NOW; the authoritative per-clause matrix
# (clause -> Lean theorems -> hypotheses -> suites -> status) of each property is clauses/<id>.md.
CLAIMED = {
 # id: (technique, level text, design_ref)
 "C01": ("PARTIAL — machine-checked proof in Lean 4 of the exact-arithmetic skeleton (balance-heuristic identity on finite "
          "and on arbitrary measurable spaces, kernel invariance, mean-field recursion, finite-N facts) and of run-level "
          "theorems for every configuration and tape of two executable pipeline models (Model/Pipeline.lean, "
          "Model/PipelineX.lean), with the kernel expressions regenerated from mcmc.py by translator G4 and the models tied to "
          "the real Sampler by toleranced-Float replays of recorded runs (pipeline-trace-replay, extended-trace-replay, "
          "posterior-of-run; decisions exact); NOT a theorem: any rate for the finite-particle deviation, and that a batch has "
          "its nominal tempered law at finite N.",
         "Proved for every configuration and every tape of the extended model X (run_sampling of a fresh run: both "
         "reweighting modes, per-walker proposal / fold / hard-wall rejection, sigma adaptation, stopping rule, loop guard, "
         "epilogue, compute_posterior): a completed run has 1-beta < tol and ESS >= n_total; the untrimmed posterior() "
         "returns the pool with the self-normalised mixture weights at beta=1 and an estimate is the ratio of the two "
         "balance-heuristic sums; one beta per iteration, schedule from 0, monotone in [0,1], one batch appended; tpCN step "
         "sizes stay in [0,0.99]. Under the hypothesis 'batches at their nominal laws, exact normalisers' (nobody's theorem "
         "at finite N): unbiasedness on finite and on measurable spaces; exact finite-N unbiasedness only for the warm-up "
         "pool (H_tape: i.i.d. innovations, pure user functions - assumed, not checkable). Negative results are theorems: "
         "estimated normalisers bias Z at finite N; the DEFAULT trimmed posterior targets E[f | w >= theta] (shift <= "
         "2(1-ess_trim) sup|f|; known finding F35); a kernel chosen by the starting label is invariant only without label "
         "crossing (F39). F17/F21 (C03) falsify the folded-tpCN / reflective-correlated cells. NOT covered: a rate in N - "
         "hence partial. Recorded real runs (70-cell lattice incl. clustering, volume-variation, folded coordinates) are "
         "replayed every run within 1e-9; trainer output and the metric table stay on the tape.",
         "DESIGN.md §6 C01"),
 "C02": ("PARTIAL — machine-checked proof in Lean 4 on the pipeline models (Model/Pipeline.lean, Model/PipelineX.lean) that "
          "evidence() of a completed run is the log mean unnormalised mixture weight at beta=1 over the whole history, plus "
          "measure-theoretic theorems on independence and averaging of runs and the RNG dataflow re-exported from C09 over the "
          "G3-regenerated effect table (G4 for the kernel), tied by toleranced-Float replays (evidence-trace-replay, "
          "evidence-of-run) and exact seed-sensitivity / run-isolation suites; NOT theorems: consistency as N grows, any "
          "magnitude of the finite-N bias or variance, and independence of MT19937 streams (H_PRNG).",
         "Proved for every configuration and every tape of the extended model X: when run_sampling returns, the reported "
         "value is specLogz h 1 = log((1/N) sum_s exp(l_s - log sum_t (n_t/N) exp(beta_t l_s - z_t))) over all stored "
         "particles, it is what the state holds, every stored batch is non-empty (no tape hypothesis), and every "
         "per-iteration logz is the same functional at the iteration's own beta in both reweighting modes. Under nominal "
         "batch laws with exact normalisers (not a theorem at finite N) the estimated quantity is exactly Z_beta; Jensen "
         "gives E[log Z^] <= log E[Z^] (log-evidence biased low; no magnitude). Independence: a run's value is a function of "
         "its own tape, so runs on independently drawn tapes are independent, Var[mean of R] = Var/R and E(mean-z)^2 = "
         "(m-z)^2 + v/R - under H_PRNG (streams of different seeds are independent tapes: assumed; that a run reads no other "
         "entropy is C09's G3 table plus suite run-isolation, exact, every run). Dataflow: no library operation forgets the "
         "seed (G3 table regenerated). NOT covered: consistency as N -> infinity (row 7) - hence partial. Real run() + "
         "evidence() calls over the lattice (clustering, volume-variation, boundary kinds) must stop where the model stops "
         "and agree to 1e-9.",
         "DESIGN.md §6 C02"),
 "C03": ("Machine-checked proof in Lean 4 (Mathlib measures and Markov kernels, Bochner / Lebesgue integrals, tsum "
          "re-indexing for folds) on the executable models Model/Kernel.lean (one step), Model/KernelRun.lean (parallel_mcmc "
          "and the run loop) and Model/ModeStatsNum.lean (ModeStatistics constructor), with the kernel expressions, run-loop "
          "rules and write-site / dispatch tables regenerated from mcmc.py by translator G4 and proved equal to the canonical "
          "model (gen_eq_canon_*), tied to the real runners by toleranced-Float suites under taped randomness (kernel-step, "
          "kernel-run, mode-stats-model) and an exact dispatch suite.",
         "For every dimension, every mode (mu, Sigma SPD, nu > 0), every beta, every measurable log-likelihood: the LAW of "
         "the executable model's accept/reject step leaves exp(beta l) 1_cube invariant - tpCN for 0 < sigma < 1, RWM for "
         "every sigma != 0, hard walls, correlated factors (C03_tpcn_step_law_invariant, C03_rwm_step_law_invariant); RWM "
         "with any subset of periodic coordinates in any dimension; reflective coordinates in d = 1. The former textbook "
         "steps are theorems: density of the candidate from the laws of the gamma / normal / uniform draws, detailed balance "
         "=> reversibility => invariance on Mathlib kernels. Run model: assignments never written after construction (G4 "
         "write-site table), sigma fixed within a pass and handed between passes, tpCN sigma in [0, 0.99], diminishing "
         "adaptation, out-of-cube candidate rejected, state stays in the cube, step count bounds. Constructor model: Cholesky "
         "sound, complete, unique; inverse; error classes. Remaining: H_tapes (numpy's gamma/randn/rand have their documented "
         "laws and are independent: assumed; only the argument wiring is checked); reflective folds in d >= 2 only under "
         "evenness; N-walker product stated pairwise; adaptation across steps and the stopping time not covered; LAPACK "
         "compared to 1e-11 cond. FALSE and recorded: tpCN on folded coordinates (F17), reflective + correlated covariance "
         "(F21), both with Lean counter-examples.",
         "DESIGN.md §6 C03"),
 "C04": ("Machine-checked proof in Lean 4 on ONE source-derived model term of compute_logw_and_logz (Model/Weights.lean) "
          "evaluated at the reals, at reals with an arbitrary rounding after every operation, and at Float, plus a key-level "
          "model of the per-key history lists and the results cache (Model/WeightsKeys.lean) and sampler-level theorems on "
          "Model/ClosedLoop.lean + Model/Posterior.lean / PosteriorX.lean; translator G13b compiles the Python AST of "
          "compute_logw_and_logz, compute_results, compute_posterior and compute_evidence into Lean terms (Gen/WeightSrc.lean) "
          "on every run and Props/C04Source proves by rfl / case split, for every scalar type incl. Float, that 21 model "
          "definitions unfold to exactly those terms (32 theorems), G13 regenerates the call sites and the cache discipline of "
          "StateManager; toleranced-Float suites on generated histories, call sequences and real (also resumed) runs tie the "
          "models dynamically.",
         "For every well-formed history (T >= 1, every n_t >= 1, any real beta_t, z_t, logl; WF is the statement's own "
         "quantifier): logw = beta l - log sum_t (n_t/N) exp(beta_t l - z_t) per stored particle in stored order, logz = log "
         "mean weight, normalised weights sum to one, invariance under ANY permutation of iterations, the mixture regrouped "
         "by distinct beta, the shift law, uniformity at beta = 0, exp arguments <= 0. Key level: on an aligned history the "
         "function as it reads the real per-key lists is the model, and for EVERY call sequence compute_results()['logw'] is "
         "never stale (cache discipline regenerated by G13). Sampler level: at every loop-top state of any run - also resumed "
         "with another n_particles - the formula holds, and posterior(return_logw=True) / evidence() expose exactly these "
         "numbers for every option combination. The arithmetic, tests, return tree and call-site literals of the model are "
         "the current source's (G13b, every scalar type). Still hand-copied: numpy itself (logaddexp and its reduce as a left "
         "fold, np.max / np.sum, broadcasting as nested map), list-level shape operations and which list instantiates which "
         "parameter (pinned as text only). Floating point: all outputs bounded for |logl|, |z| <= 1e300 under H-IEEE alone "
         "(standard rounding model of binary64 and numpy's exp/log: assumed, sampled every run by suite ieee-H). Outside the "
         "statement (misaligned lists, non-finite inputs) the behaviour is characterised, not claimed. Real code within "
         "1e-9(1+scale).",
         "DESIGN.md §6 C04"),
 "C05": ("Machine-checked proof in Lean 4 on four models of the reweighting step - Model/Reweight.lean generic in the metric "
          "oracle, the ESS-mode pipeline Model/Pipeline.lean, the closed-loop run Model/ClosedLoop.lean + "
          "Model/ClosedResume.lean in both metric modes, and Model/Reweight.lean evaluated at reals-with-NaN under an "
          "arbitrary monotone rounding - with translator G1 regenerating the tolerances and G10 compiling the 26 decision / "
          "arithmetic terms (parameters ordered by where the source binds them, so an operand swap breaks a theorem), "
          "statement skeletons and the writers of state['beta'] from steps/reweight.py, with Props/C05Source proving by rfl "
          "for every scalar type incl. Float that the model's decision expressions are those terms (21 theorems; "
          "source-derived model); exact-dyadic and bit-exact decision suites on the real Reweighter with an injected table "
          "oracle, whole-run / resume-run observers and closed-loop replay tie the models to the code.",
         "On the closed-loop model of run_sampling (every World of external functions, every configuration, both metric "
         "modes), for every run that stays inside the model (checked by the replay on real runs): beta_0 = 0, non-decreasing, "
         "<= 1; warm-up holds beta = 0 while k n_particles < target; after an advance the pool's own ESS at the ESS-limited "
         "temperature is >= target and that limit is tight within the regenerated tolerance (<= 14 halvings, fuel never "
         "decides); volume-variation mode never goes beyond it; recorded beta, evidence, ESS and the weights handed to "
         "trim_weights / the fit and to the resampler all belong to the one beta written to state - the same-temperature "
         "clause for EVERY scalar type including Float, all 7 branches. Range, monotonicity and same-temperature also hold "
         "with NaN oracle answers under any monotone idempotent rounding. Continued runs (resume path, load_state(); run(), "
         "second run()) continue the schedule from the restored beta (three-way prologue; the old two-way prologue restarting "
         "at 0 is the witness of F34). The model's decision expressions, literals and operand order are the source's (G10, "
         "rfl for every scalar type); the metric / evidence oracles and np.isfinite stay parameters, the loops are fuelled "
         "recursions. Remaining: the rounded ESS comparison, termination and tightness UNDER ROUNDING and +-inf answers are "
         "exercised bit-exactly by the Float suites only; volume_variation is a World parameter (C20's).",
         "DESIGN.md §6 C05"),
 "C06": ("Machine-checked proof in Lean 4 (incl. Lebesgue integrals over the offset and the product measure of n uniforms) on "
          "Model/Resample.lean and Model/ResampleX.lean - systematic_resample with numpy's pairwise np.sum inside, numpy's "
          "legacy choice with its kahan-sum validation, Resampler.run and the call sites in execute_iteration / posterior - "
          "instantiated at the reals, at every scalar type and at rounded real arithmetic; the systematic path and the "
          "dispatch of Resampler.run are source-derived: translator G14 recompiles the AST of tools.systematic_resample and "
          "Resampler.run into Gen/ResampleSrc.lean (24 terms, 6 tables) on every run and Props/C06Source proves, for every "
          "scalar type incl. Float, that Model/Resample.lean unfolds to those terms (22 theorems, 16 by rfl); exact-dyadic "
          "(complete offset partition), bit-exact Float and exact-rational bound suites tie the models to the real routines "
          "and real Sampler iterations dynamically.",
         "For every n, every weight vector, every offset and every scalar type (so for the Float execution itself): the "
         "systematic routine returns exactly n valid non-decreasing indices (IndexError exactly on the empty vector). Over "
         "the reals: with sum 1 and in the renormalising branch the closed-form count, the floor/ceil law, the full copies "
         "law and unbiasedness; for EVERY sum |count_j - n w_j| < 1 + n|sum - 1|; a zero-weight particle is never selected "
         "(both schemes, every draw). Inside a run the array Resampler.run and posterior receive is w/sum(w) with sum exactly "
         "1, so the literal floor/ceil clause holds there for any log-weight vector, in every annealing iteration of the "
         "pipeline model. Each pass of the loop, the renormalisation test, SQRTEPS, the cap and the scheme dispatch are the "
         "current source's (G14); hand-copied remain the loop-to-recursion shape, the numpy idioms (flatnonzero, "
         "broadcasting, arange), np.sum's pairwise algorithm, numpy's choice and Model/ResampleX.lean. Multinomial: numpy's "
         "validation accepts iff non-empty, entrywise >= 0, |sum-1| <= 2^-26, then n valid indices, index law w_i/sum(w), "
         "expected copies n w_i/sum(w) under H-iid (independent U[0,1) draws: assumed) and the assumption that numpy's choice "
         "refines the transcribed model (tied bit for bit). Floating point: the count bound under H-fp (audited per operation "
         "on the real code every run); means in floats are oracle-only. The literal floor/ceil clause is FALSE inside the "
         "tolerance band (known finding F20).",
         "DESIGN.md §6 C06"),
 "C07": ("Machine-checked proof in Lean 4 by induction over whole runs on the StateManager-level record model "
          "Model/RecSM.lean + Model/RecSM2.lean (None slots, per-key histories, blob gate, one MCMC pass with fold / bounds "
          "check / substitution, warm-up redraw loop, execute_iteration, posterior, results, dict round trip), on "
          "Model/LogLike.lean (_log_like dispatch and packing) and on the older struct-of-arrays model Model/Records.lean, "
          "with translators G5 (gather / mask tables) and G5-sites (closed-world tables of every record-key writer, fancy "
          "index, blob gate, wiring and statement skeletons) regenerated from source; exact tagged-particle and exact-dyadic "
          "suites on the real Sampler plus the property's own oracle on whole real runs tie them to the code.",
         "For every configuration, every tape (raw proposals, accept bits, resampling indices, warm-up batches) and any "
         "number of iterations from a fresh or a loaded state: after the resampler, after the mutator and after the commit "
         "every current row satisfies x = T(u), logl = L(x), blob = L(x).blob, with the blobs array present exactly when the "
         "likelihood returns blobs; every per-key history list stays aligned batch by batch; the dictionary sample() returns, "
         "every posterior() row under all option combinations and results() are coherent rows of the pool; no stored or "
         "returned logl is -inf; resampling uses one index vector, mutation one accept mask, -inf replacement one source map "
         "for all keys; after the real fold a point accepted by check_bounds is in the cube and a rejected one is replaced by "
         "the walker's own position. Completeness is an obligation decided on regenerated closed-world tables (only "
         "Resampler.run and Mutator.run write record keys, package-wide). Named hypotheses, each checked by a suite every "
         "run: H_pure (user functions deterministic; presupposed by the statement), RowWise (numpy packs blob row i from "
         "result i alone), TapeOk (rand in [0,1)), dill round trip = identity on values (C08); H_round only for the rounded "
         "fold variant. The kernels' arithmetic is C03's.",
         "DESIGN.md §6 C07"),
 "C08": ("Machine-checked proof in Lean 4 on a byte-prefix process-crash file-system model (Model/FS.lean), a map model of "
          "the StateManager with defaults loop and cadence (Model/Checkpoint.lean) and a model of the whole SamplerCore around "
          "a checkpoint (Model/Resume.lean: pickled dictionary, load, three-way prologue, loop, epilogue, files written), with "
          "translator G7 in three programs regenerating the save protocols, the StateManager IO and the dictionary keys / load "
          "table / attribute list / run shape from core.py and state_manager.py (G5 for the key sets); exact round-trip, "
          "cadence-resume, protocol-trace, crash-injection, metadata and worker-pool suites on the real code tie them.",
         "Crash safety: in EVERY crash state (every op prefix, last write cut at every byte) of both temp-rename saves the "
         "final name holds the old content or the complete payload, from any initial file system, also over a stale temp and "
         "for a re-save after a crash; a save of another name interleaved in any order changes nothing (same name from two "
         "processes is excluded, with a witness); the protocols and temp names are regenerated from source. Restore: load "
         "into any fresh sampler gives back the identical StateManager record, and every checkpoint a run wrote (exactly at "
         "t0 + j k and final) holds, at the end of the run, the complete pickle of the world after j iterations - under "
         "H_dill (loads(dumps d) = d, a strict prefix does not load: trusted, exercised by every suite). What load restores "
         "(n_total, logz_err, generator position; never reseeds) is proved on regenerated tables. Resume: numbering, calls "
         "and history prefix continue; path and manual resume give the same world, a second run() continues; the loop exits "
         "with C12's postconditions for the resuming call's n_total. That the resumed run IS the remainder of the "
         "uninterrupted one needs H_det (an iteration is a function of StateManager, generator position, component state) and "
         "H_comp (independent of component state: proved for cluster_every = 1 or clustering off, false in general with a "
         "Lean witness; the suite compares bit-identity where predicted). 'Saving works in every configuration' is execution "
         "only.",
         "DESIGN.md §6 C08"),
 "C09": ("Machine-checked proof in Lean 4 on adaptive RNG effect programs (interaction trees over an abstract generator, "
          "Model/RngRun.lean: seeding, draws, private generators, get_state/set_state through run / save / load / resume), on "
          "the in-order call-site model of one sampler iteration (Model/RngSites.lean) and on the older straight-line model "
          "Model/Rng.lean, with translator G3 regenerating the alias-aware RNG effect table and G3b the over-approximated call "
          "graph with reachability certificates from /repo; ten exact suites (bit patterns, generator states, event logs, "
          "integer counts) tie them to the real code.",
         "For ADAPTIVE code (draw counts and branches may depend on the numbers drawn) and every generator: a fresh seeded "
         "run is a function of its seed and its event log is exactly the seed's stream from position 0; a seed-free program "
         "leaves the generator on the orbit of the state it found, advanced by exactly the requests consumed - the old "
         "injectivity form is FALSE for adaptive code, with a Lean counter-example; a mixture fit with its private "
         "RandomState leaves the process-wide stream untouched; successive iterations consume consecutive segments; resume "
         "restores the saved position and continues with exactly the suffix of the uninterrupted log; load_state(); run() and "
         "a second run() continue without seeding; saving perturbs nothing. Decided on tables regenerated every run: no "
         "literal seed, no unknown entropy source (aliases, getattr, os.urandom, stdlib random), seeding only in "
         "_initialize_fresh on an empty history and in systematic_resample's parameter, every set_state argument is a loaded "
         "saved position, the model's sites are the table's sites. The requests of an iteration are a closed form of "
         "configuration and observables, compared exactly. Hypotheses, each checked on the real code every run: call graph "
         "sound (observed edges within the graph), hfirst (first values of two seeded streams differ), hnocycle (no return to "
         "an earlier state); H_pure (same inputs) is the statement's premise. Oracle-only: non-overlap of differently seeded "
         "MT19937 streams; draws with a user pool.",
         "DESIGN.md §6 C09"),
 "C10": ("Machine-checked proof in Lean 4 by induction over the closed-loop model of run_sampling (Model/ClosedLoop.lean: "
          "nothing read from a tape, only a World of external functions abstract) and over the tape-driven pipeline "
          "Model/Pipeline.lean, plus rounded-arithmetic bounds on the generated acceptance expression, with translators G4 "
          "(kernel expressions), G5 (tables) and G9 (where a log-likelihood or log-weight can be read: Gen/Shift.lean) "
          "regenerated from source; toleranced paired real runs judged on the statement's observables, a correspondence-only "
          "comparison of every internal call (paired-shift-internals), closed-loop and tape replays, checkpoint comparison and "
          "an exact rounding-bound suite tie the models to the code.",
         "C10_cl_run_from: for every World (likelihood, prior draw, random stream, trainer, proposal generator, volume "
         "metric), every configuration, every constant c and every well-formed start state (fresh, loaded, or a second "
         "run()), running the closed-loop model on like + c gives the same schedule in BOTH metric modes, the same trial "
         "temperatures and oracle calls, ESS sequence, trainer input, proposals, step sizes, number of mutation steps and of "
         "iterations, stream consumption, counters, particles, normalised weights and all 16 posterior() option combinations; "
         "every log-likelihood + c, every recorded evidence + beta_t c, the final evidence exactly + c; warm-up redraw loop "
         "and -inf replacement identical; both runs fail together; checkpoints differ only in l and z_t. H_tape is no longer "
         "needed. That the real trainer, sigma adaptation, stop rule and guard read no log-likelihood and that every "
         "log-weight is used normalised and max-shifted is decided on G9/G5 tables regenerated every run. Rounding: one "
         "accept/reject decision flips only if the uniform is within an explicit bound of alpha (H_round: assumed; checked on "
         "the doubles of every recorded step), ESS within exp(+-12e) for perturbed stored data; the whole run under rounding "
         "is oracle-only: the property oracle reads only the statement's observables through the public API, excuses a "
         "decision flip only with a rounding tie in the same iteration and re-tests at c/2, 2c; internal comparisons are "
         "correspondence-only.",
         "DESIGN.md §6 C10"),
 "C11": ("Machine-checked proof in Lean 4 on a linear-space, Rat-executable model of the warm-up evidence rule "
          "(Model/Warmup.lean), the redraw loop (Model/WarmupR.lean), the pipeline with that loop (Model/Pipeline.lean + "
          "Model/PipelineR.lean, both reweighting modes), C07's record model Model/RecSM2.lean and the finite-space mean-field "
          "lemmas of Lemmas/MIS.lean, incl. expectation, variance and concentration over product laws; the warm-up models are "
          "source-derived: translator G19 recompiles the beta == 0 branch of Mutator.run into Gen/WarmupSrc.lean (16 terms, 10 "
          "tables) on every run and Props/C11Source proves, for every scalar type incl. Float and Rat, that Model.WarmupR, "
          "Model.Warmup.batchZR and Model.PipelineR (warmupL, iterateL) are those terms (21 theorems, 15 by rfl, 6 by list "
          "combinatorics); exact-dyadic scripted-batch suites on the real Mutator / Sampler, an exact record suite, a "
          "toleranced whole-run replay and a suite on numpy's own stream tie them dynamically.",
         "For EVERY tape, any number of warm-up iterations, both reweighting modes and nothing assumed about which draws are "
         "finite: the warm-up returns only finite log-likelihoods, each stored row is a whole (u, T u, L(T u)) record of one "
         "point of ONE drawn block, the loop keeps the first block with a finite draw and counts every draw; beta stays 0 and "
         "the committed evidence is n_fin/n_drawn when draws were -inf or discarded, else the harmonic mean of the earlier "
         "values, so every recorded warm-up evidence lies between the smallest and largest recorded fraction - counted once, "
         "nothing compounds (F7 / F8: theorems about the pre-fix code). No -inf proposal is accepted at beta > 0. The cap, "
         "loop test, counters, evidence rule, path conditions of the replacement and the arguments of np.random.choice are "
         "the current source's (G19); hand-copied remain the semantics of numpy's fancy assignment (scatter), np.isinf as "
         "'none', and the record-level twin RecSM2 (string tables + exact suite). Under H_iid (finiteness indicators "
         "independent Bernoulli(f): PRNG idealisation; its structural half is checked on the real code every run): E[Z_1] = f "
         "sum_j r^j/(j+1) with f <= E <= f/(1-r), r = (1-f)^n (not exactly unbiased: theorem), variance f(1-f)/n, weak LLN, "
         "whole-phase concentration of logz at log f, marginal law of a stored particle. 'Converges to the supported "
         "integral' is proved only in the mean-field recursion (H_meanfield: nobody discharges it; false as an exact finite-N "
         "identity by C01).",
         "DESIGN.md §6 C11"),
 "C12": ("Machine-checked proof in Lean 4 on the composed run model Model/RunEntry.lean (the whole run_sampling with its "
          "three-way entry, n_total attribute, guard, epilogue, evidence, on the closed-loop state of Model/ClosedLoop.lean) "
          "and on Model/PosteriorX.lean (compute_posterior with optional blobs and its four return statements; first pass: "
          "Model/Run.lean, Model/Posterior.lean), with translators G1 (termination tolerance, loop and epilogue shape), G5 "
          "(posterior gather / return tables) and G12 (entry arms, every assignment and read of n_total, blob gate, return "
          "selector) regenerated from core.py; exact, bit-exact and toleranced suites on the real Sampler (posterior "
          "combinations, guard, epilogue, run-entry, before-run) tie them.",
         "C12x_run_post: for every World of external functions, every configuration, every good sampler (new, one that "
         "already ran, or one that loaded any checkpoint the model can write) and every call run(n_total[, path]): if the "
         "call returns, beta <= 1 and 1 - beta < the regenerated tolerance (= double 1e-4), the posterior weights computed "
         "inside the model from the stored batches are non-negative, sum to one and have ESS >= THIS call's int(n_total), "
         "evidence() is the balance-heuristic estimate at beta = 1 over the final history, and the history the call started "
         "from is a prefix. Resume with another n_total, manual resume (= path resume since the repair of F34) and a second "
         "run() are covered; asking for no more than delivered returns at once. Posterior: for every non-empty history, all "
         "16 option combinations, blobs declared, merely present or absent, every ess_trim, bins_trim >= 1 and resampling "
         "offset the routine returns, all returned arrays have one length, each returned row is ONE stored particle under "
         "every array (the blob is the blob of the returned x), weights >= 0 summing to one, exactly uniform under "
         "resampling; the former assumption 'history arrays have one length' is a proved run invariant. Error paths before "
         "any run are theorems. Partial correctness only: termination of run() is not claimed. Exact reals; Float rounding of "
         "exp / sum / ESS is bridged by the suites; Sterbenz exactness of 1.0 - beta is used informally.",
         "DESIGN.md §6 C12"),
 "C13": ("Machine-checked proof in Lean 4 on a value-level model of _log_like, _get_distribute_func and FunctionWrapper for "
          "every pool value with a pool whose tasks complete in an arbitrary order (Model/LLEval.lean), a control-flow model "
          "of the call counter over whole fresh / resumed / continued runs with every numerical part opaque "
          "(Model/CallsRun.lean), the older table interpreter Model/Dispatch.lean and the shared pipeline Model/Pipeline.lean "
          "fed through the evaluator; source-derived: translator G21 compiles every branch test, literal, index and counter "
          "update of the likelihood path into Gen/LogLikeSrc.lean on every run and Props/C13Source pins 25 model definitions "
          "by extensional equality for every input (26 theorems; Props/C13SourceTie identifies the tables used), over the "
          "hand-written Python primitive semantics of Model/LLPy.lean; G6 regenerates the dispatch tables, likelihood call "
          "sites, increments and every writer of 'calls'; exact and bit-exact suites on the real code under many evaluation "
          "strategies tie them dynamically.",
         "For every pool value (None, every int incl. negatives and bools, objects with or without map) dispatch is a closed "
         "form and fails only for a map-less non-int object. For every permutation of task completions (H_perm = the "
         "statement's 'any completion order') the pool model IS the serial map: logl, blobs (plain dtypes) and even failures "
         "are identical under every point-by-point strategy; For every Algo (all numerical parts opaque) the whole run - "
         "final state, counter, batches asked - is a function of the evaluator's values only, hence identical under any two "
         "strategies; on the pipeline model verbatim at Float. Counter: after run_sampling calls = start value + number of "
         "points in all batches handed to _log_like = length of the evaluation log, for any sequence of warm-up (k redraws "
         "give k+1 batches), annealing, resumed and second runs; ALL writers of 'calls' in the package are regenerated. The "
         "tests, literals, indices and counter arithmetic of the model are the current source's (G21, every input); "
         "hand-copied remain the meaning of each Python primitive (Model/LLPy.lean), map / pool.map, numpy's blob packing, "
         "and the control skeleton of the run model (G6 string facts + suites). Assumed: hvec (vectorised likelihood "
         "pointwise equal: the statement's premise), H_rng (likelihood and pool do not touch numpy's global generator), a "
         "real pool is an instance of the pool model - checked every run on nine pool doubles, a real ThreadPool and "
         "executors. Not covered: the progress bar.",
         "DESIGN.md §6 C13"),
 "C14": ("Machine-checked proof in Lean 4 on list models of label-to-mode lookup (Model/Modes.lean), the ModeStatistics "
          "constructor with its positive-definiteness gate (Model/ModeGate.lean), the clustering cadence as a state machine "
          "with fit generations across run / save / load / resume / crash-and-rerun (Model/Cadence.lean, Model/CadenceX.lean) "
          "and one annealing iteration Trainer.run -> Resampler.run -> mode_index with the contracts of C15, C19 and C20 "
          "plugged in as theorems (Model/TrainStep.lean); source-derived: translator G20 recompiles mode_index, the label "
          "handling of from_particles, the __init__ gate, Trainer.run and Resampler.run into five sections of "
          "Gen/ModesSrc.lean on every run (numpy idioms read through Model/NpModes.lean) and Props/C14Source proves that 27 "
          "model definitions are the generated terms for every input and scalar type (41 theorems), G1 regenerates "
          "DOF_FALLBACK; exact suites on the real ModeStatistics / Trainer / Resampler / Mutator, exact event strings and data "
          "flow on real Samplers, and a toleranced Cholesky-contract check tie them dynamically.",
         "For every valid weight vector, every history, every raw assignment: at mutation every active particle's label is "
         "mapped to an index < K of an existing mode; the label written back is a training label, a label that has a mode is "
         "kept, one without goes to a mode at minimal distance; the mode at that index was fitted from exactly the training "
         "particles carrying that label and its mean lies in their bounding box; scale matrix symmetric; 0 < nu <= max(1e6, "
         "fallback); K_modes <= K_fit <= n_max_clusters. For every cluster_every >= 1, every beta schedule and every sequence "
         "of run / save / load / resume / crash-and-rerun: both predicts of an iteration are served by ONE fit generation, "
         "the latest of the existing object, and no predict precedes the first fit. The lookup, gate, cadence test, branch "
         "traces and call arguments of Trainer.run / Resampler.run are the current source's (G20); hand-copied remain the "
         "numpy primitives (unique, where, searchsorted, argmin, shapes), the reading of a trace and the monadic glue of the "
         "iteration (tied by suites). Remaining: H_lapack (inv + cholesky return iff all Gauss-Jordan pivots are positive; "
         "checked against the real constructor every run) for 'positive definite'; H_pointwise (predict is a map over rows; "
         "suite predict-batch-independence); IEEE finiteness and float symmetry are run-time oracles. The constructor "
         "refusing a degenerate cluster (a resample constant in a coordinate) is characterised by a theorem and stays known "
         "finding F24.",
         "DESIGN.md §6 C14"),
 "C15": ("Machine-checked proof in Lean 4 on scalar-polymorphic executable models of the whole GaussianMixture "
          "(Model/GMM.lean: Cholesky log-density with a refusal oracle, log-space E-step, M-step of Model/EM.lean, lower "
          "bound, EM loop, weighted k-means++ from a rand() tape, restarts, predict, bic) and the whole "
          "HierarchicalGaussianMixture (Model/HFit.lean, with Model/HGMM.lean the split loop), by loop invariants and list "
          "induction; source-derived: translator G18 compiles the AST of cluster.py into Gen/ClusterSrc.lean (49 terms over "
          "the numpy vocabulary Model/NpSrc.lean, 15 statement-skeleton tables of 211 statements, literals in "
          "Model/ClusterLits.lean) on every run and Props/C15Source proves by rfl / structural case splits, for every scalar "
          "type incl. Float, that about 45 model definitions unfold to those terms (57 theorems); toleranced whole-fit suites, "
          "exact split replay, real-vs-real replication, a literal suite and the statement's own oracle on every real fit tie "
          "them to cluster.py dynamically.",
         "For every data set, weights >= 0 with positive sum, K >= 1, every rand() tape in [0,1) and EVERY refusal behaviour "
         "of scipy's density: fit returns with 1 <= n_iter_ <= max_iter; weights on the simplex; covariances symmetric PSD "
         "('full') / entries >= 0 ('diag'); the mean of every component with mixing weight >= tiny inside the bounding box; "
         "every E-step row a probability vector (F30: the old rule was not); integer weights = replication for the WHOLE fit. "
         "Hierarchical model, for every scalar instance (so also Float with NaN / inf queries) and with no oracle hypothesis: "
         "labels partition the training points into [0,K), 1 <= K <= max_iterations + 1, nothing split or every final cluster "
         ">= min_points, predict in [0,K) on both paths, cluster_weights_ and predict_proba rows on the simplex (reals). "
         "M-step, covariances, initialisation, E-step entry, lower bound, bic, convergence / restart tests, split loop, "
         "threshold and all literals are the current source's (G18); hand-copied remain the meaning of each numpy idiom "
         "(Model/NpSrc.lean), the Option encoding of -inf, the assembly of per-component pieces, and normalisation / predict "
         "/ predict_proba of HFit (tied by hfit-T only). Remaining: H_scipy (logpdf is the Gaussian log-density of the lower "
         "triangle or raises; which matrices it refuses is arbitrary; checked every run); H_round only for the float reading "
         "of the E-step; 'tied'/'spherical' outside. Oracle-only: bic value, NaN rows of predict_proba in floats, 'diag' "
         "prediction semantics.",
         "DESIGN.md §6 C15"),
 "C16": ("Machine-checked proof in Lean 4 on the scalar-polymorphic model of apply_boundary_conditions / check_bounds "
          "(Model/Boundary.lean) and of their Python glue - column updates of 2-D arrays, None arguments, set arithmetic, "
          "early exit, the two np.all passes, the call site in BaseMCMCRunner.run (Model/BoundaryPy.lean) - at the reals, at "
          "rounded reals under an arbitrary monotone idempotent rounding, and for every scalar instance incl. Float, Float32 "
          "and Rat, plus Lebesgue push-forward and kernel reversibility of the folded proposal in d dimensions; "
          "source-derived: translator G15 compiles both functions from mcmc.py into Gen/BoundarySrc.lean (terms, skeleton and "
          "call-site tables) on every run and Props/C16Source proves that all 14 model definitions are that compiled source "
          "for every scalar type (18 theorems, every scalar tie a literal rfl); exact-dyadic, bit-exact (binary64 and "
          "binary32), call-sequence and own-oracle suites on the two functions, whole calls, the real call site and "
          "SamplerConfig tie them dynamically.",
         "For every real vector, every index lists (duplicates, overlaps, out-of-range) and every scalar instance: "
         "non-designated coordinates untouched; over the reals periodic = x - floor x in [0,1), reflective = distance to the "
         "nearest even integer in [0,1], the map idempotent, check_bounds accepts iff all remaining coordinates lie in [0,1] "
         "and commutes with the map. The Python glue is proved to be the core maps (2-D input column by column = row by row, "
         "None skips the loop, one flag per row also in the early exit), and both functions as modelled ARE the compiled "
         "current source (G15); hand-copied remain the numpy dictionary (%, np.mod ==, np.where, u[..., idx], set operations, "
         "np.all, &), the mask substitution at the call site and np.atleast_1d. Measure theory, unconditional: the label sum "
         "is the density of the law of fold(x + xi) for any mix of coordinate kinds in any dimension, with the mass of k; "
         "reversibility of the folded kernel and of the fold-then-reject sub-kernel under the sharp hypothesis SignInv (false "
         "for the sampler's correlated covariance: F21 under C03). Floating point: range [0,1] and idempotence modulo the "
         "periodic end points 0 ~ 1 under H_round (monotone idempotent rounding fixing 0 and 1: assumed), closeness under the "
         "named accuracy hypothesis Hacc; both checked on the real code every run. Indices are ints in range, not bools: "
         "discharged by SamplerConfig since b8d82fc and checked by suite index-validation; statelessness across calls is "
         "checked by suite sequence-F.",
         "DESIGN.md §6 C16"),
 "C17": ("Machine-checked invariant proof in Lean 4 by induction over op sequences on three reference-level models of "
          "StateManager - a flat heap with ghost sets escaped / imported (Model/StateMgr.lean), its extension by "
          "compute_posterior, execute_iteration, compute_results as a function of history, a second manager and resume "
          "(Model/StateMgrX.lean), and a nested heap for object arrays, lists and dicts with deep / shallow copies "
          "(Model/StateMgrN.lean) - with translators G5-tables and G5-smsites regenerating key sets, the copy discipline of "
          "every accessor and store of state_manager.py and every use of the manager elsewhere; exact digest differentials on "
          "random op sequences, real compute_posterior, resume through a file and real sampler runs with scribbling tie them.",
         "Inv (every internally reachable array is disjoint from every array ever handed to the caller, except arrays stored "
         "on request with copy=False) holds after every op sequence, on the flat model and on the nested model down to the "
         "elements of returned containers; every accessor output (current, history, last history, to_dict, results, every "
         "posterior option combination, the dictionary sample() returns) is allocated by the call and caller-owned. Hence a "
         "trace with the caller's writes equals the trace without them (C17_full, flat model; under okSeq = the statement's "
         "own premise); on the nested model independence is proved per write. compute_results, cached or not, is a function "
         "of the committed history; posterior touches nothing. Append-only: an iteration commits once and extends each "
         "recorded key by exactly one batch, earlier payloads unchanged; over any import-free run old history stays a prefix "
         "and a list grows by the number of successful commits; a resumed manager shares nothing with the old one or the "
         "exported dictionary, restores the committed payloads, and stays append-only across the checkpoint. That the code "
         "has the model's copy rules, that no call site outside the class passes copy= or touches the private dictionaries, "
         "and the shape of an iteration are decided on regenerated tables. Assumed: numpy copy / stack / indexing / deepcopy "
         "allocate (np.shares_memory checked on every accessor output every run). Not covered: nesting deeper than 2, exotic "
         "top-level value types.",
         "DESIGN.md §6 C17"),
 "C18": ("Machine-checked proof in Lean 4 about tables regenerated from source, interpreted with Python semantics over a "
          "typed value universe (Model/ConfigSpec.lean for the validation rules, Model/CtorPath.lean for every downstream use "
          "of an option): translator G2 regenerates the statements of __post_init__, the ordered rule table of validate(), the "
          "constructor call table and the clusterer wiring, G8 an inter-procedural data flow of every option to its use sites "
          "with guards plus the dispatch chains and runner classes, and the covering arrays / interaction block the harness "
          "executes are checked in Lean by decide; exact suites on thousands of generated constructions, every context tag, "
          "direct dispatcher calls and real runs of the covering rows tie them.",
         "For every value of the universe (int, float incl. inf / nan, bool, str, None, list, callable, Path, object) of "
         "every option: SamplerConfig / Sampler accept iff the documented constraints hold - every violation alone or "
         "combined is rejected with the modelled exception class and ordered messages, nothing valid is rejected, defaults "
         "stored as documented; since b8d82fc bools are not counts or indices and the two targets must be finite (F37, F38). "
         "Rejection precedes any call of the likelihood or the prior (two independent extractions). The accepted kernel and "
         "resampler names are exactly those dispatched; component keywords carry the right options. Valid => runs, "
         "deterministic part: under H_doc (every option has its documented type: this audit's reading of the docstring; "
         "assumed) every one of the ~177 use sites is defined, and acceptance alone guarantees this for all options except 11 "
         "named gap options that validate() does not check, each with an accepted configuration that certainly raises "
         "(theorems; outside the statement's list). The context semantics is hand-written and compared with Python / numpy on "
         "every pool value every run. Execution only: the numerical part of 'runs to completion' and the run postconditions "
         "on pairwise / 3-wise covering rows plus a full-factorial interaction block (pool kind x save_every x likelihood "
         "kind x fresh / resumed), all verified complete in Lean; numpy-typed option values; the degenerate-cluster crash of "
         "tiny populations is known finding F24.",
         "DESIGN.md §6 C18"),
 "C19": ("Machine-checked proof in Lean 4 with Mathlib matrices (affine invariance of the Mahalanobis form, induction over "
          "the ECME loop) and on the executable scalar-polymorphic models Model/Student.lean (initialisation, loop, "
          "Gauss-Jordan solve, fallback), Model/StudentNu.lean (func0, scipy's bisect and opt_nu, the function-driven loop "
          "fitF) and Model/StudentModes.lean (from_particles / from_global with the weighted resampling, the four Trainer.run "
          "paths, the dof the kernel reads), the list twin proved equal to the matrix-level trace; source-derived: translator "
          "G17 compiles student.py and the two ModeStatistics constructors into Gen/StudentSrc.lean (37 scalar kernels and "
          "terms, skeletons of 44 + 26 + 13 statements, three independent sections) on every run and Props/C19Source proves "
          "that the model definitions unfold to them for every scalar type incl. Float (41 theorems, all rfl but five); "
          "bit-exact bisect / opt_nu suites, a toleranced replay of every fit iterate, exact dof-path, kernel-handoff and "
          "trainer-sequence suites and the property's own oracle tie them dynamically.",
         "For every data set with n >= 2, every psi (digamma: a parameter), tolerance and max_iter, on the executed model "
         "fitF (= the matrix-level trace at the reals): the location stays inside the bounding box; the scale matrix is "
         "symmetric and, for data not inside an affine hyperplane, positive definite at every iterate - for degenerate data "
         "at most one update happens before the Cholesky exit and no exception escapes; the returned nu is infinite or in (0, "
         "1e6], a point of scipy's bisect bracket (bisect model tied bit for bit to the installed scipy), a zero or sign "
         "change of the score within tolerance, scipy's RuntimeError impossible; the returned nu is the one that produced the "
         "returned (mu, Sigma). Equivariance of the whole fit under every non-zero per-coordinate scaling, translation and "
         "permutation, and of the whole ModeStatistics construction incl. resampling. Non-finite dof are replaced by the "
         "configured fallback on all four Trainer paths. Weights, update, score function, bracket, loop tests and exits, "
         "fallback and call arguments are the current source's (G17); hand-copied remain the models of the numpy / scipy "
         "primitives (median, cov, var, dot, solve, cholesky, bisect, choice), the broadcasting layout and the reading of "
         "exceptions. Remaining: H_lapack (solve raises iff singular, cholesky iff not positive definite; pivot criteria "
         "proved equivalent) and H_ieee (no rounding in any theorem). Oracle-only, every run: parameter recovery and the law "
         "of the weighted resampling.",
         "DESIGN.md §6 C19"),
 "C20": ("Machine-checked proof in Lean 4 (Cauchy-Schwarz on lists; numpy's linear percentile and linspace on a merge-sorted "
          "list; Mathlib matrices for the volume metric; an error calculus for rounded sums) on the executable models "
          "Model/Ess.lean, Model/Trim.lean, Model/VolVar.lean (volume_variation with its four branches, proved equal to the "
          "matrix model) and Model/TrimSites.lean (the call sites in Trainer.run, _compute_metric_and_weights, compute_ess "
          "with -inf); source-derived: translator G16 compiles the whole bodies of effective_sample_size, compute_ess, "
          "trim_weights and volume_variation from tools.py into Gen/ToolsSrc.lean on every run and Props/C20Source proves, for "
          "every scalar type incl. Float and Rat and using no arithmetic law, that 18 model definitions (restructured to the "
          "source's operand order) ARE the compiled functions, G1 regenerates TRIM_ESS / TRIM_BINS; exact-dyadic, bit-exact "
          "(percentile, linspace), toleranced, call-site, signature and own-oracle suites tie them to tools.py and its callers "
          "dynamically.",
         "For every non-negative weight vector with positive sum: ESS = (sum w)^2 / sum w^2 in [1, number of non-zero "
         "weights], scale and permutation invariant, = N iff all weights equal; Trimming, for every w, every ess, bins >= 1: "
         "one mask theta <= wn_i cuts samples and weights (every scalar instance), result non-empty, normalised, the "
         "survivors are the original pairs with weight >= theta in order, ESS(trimmed) >= e ESS(all) for e <= 1 (the "
         "Trainer's constants regenerated by G1) and never above ESS(all), the result is THE largest passing grid point, the "
         "loop stops by i = 0 (F28); Trainer.run is this trimming on (history row, weight) pairs. Volume metric on the "
         "EXECUTABLE model: non-negative in every branch, weight-scale invariant, complete case split (ridge iff the weighted "
         "points lie in a hyperplane; sentinel iff they coincide), affine invariant on the full-rank branch under H_inv "
         "(proved for d = 1, checked exactly per case for d >= 2); the ridge branch is NOT (witness). The four utilities as "
         "modelled are the compiled current source incl. literals, operand order, loop and signatures (G16); hand-copied "
         "remain numpy's library routines (np.sum as a left fold, percentile, linspace, mask indexing, inv, dot, eye, trace), "
         "the rank test (a parameter = H_inv) and the loop's fuel. Floating point: ESS bounds with the allowance (3N+4)u "
         "under H_rel, bit-identical ESS under power-of-two scaling under H_scale - checked on the real code every run; "
         "trimming and the metric in floats are oracle-only.",
         "DESIGN.md §6 C20"),
}
# the former clause-round APPEND texts are folded into the level texts above
APPEND = {}
EXTRA_TECH = {
 "C12": " Since the source-derivation round the run entry is source-derived as well: G12 compiles the tests, arithmetic and literals of run_sampling / _not_termination / execute_iteration / compute_evidence into Gen/RunEntrySrc.lean and Props/C12Source (25 theorems, rfl / decide for every scalar type) pins 13 model definitions (notTerm, contGuard, finalLogz, runLoop, entryBranch, prologue, runFull, ...); call order inside an iteration stays a skeleton table.",
 "C17": " Since the source-derivation round the StateManager model is source-derived: G22 compiles the bodies of 10 StateManager methods (which value is copied deep or shallow, which is stored as an alias, who receives it) into Gen/StateMgrSrc.lean, elaborated against the flat and the nested heap model; Props/C17Source (45 theorems) proves the step cases compute exactly those terms (numpy/copy semantics in Model/StateMgrPy.lean stay hand-written; a call of the repository's field walker _deepcopy_array - the F41 repair - is compiled to the model's deepCopy, its text is pinned by C17_deepcopy_array_def and its depth is checked on record dtypes with sub-array-of-object fields every run).",
}
NOT_YET = {}
props = [json.loads(l) for l in open(os.path.join(HERE, "properties.jsonl"))]
checks, na = [], []
for p in props:
    i = p["id"]
    if i in CLAIMED:
        tech, text, ref = CLAIMED[i]
        tech = tech + EXTRA_TECH.get(i, "")
        text = text + APPEND.get(i, "")
        checks.append({
            "property_id": i,
            "quick_cmd": f"./check {i} --tier quick",
            "thorough_cmd": f"./check {i} --tier thorough",
            "evidence_file": f"evidence/{i}.json",
            "replay_cmd_template": f"./check {i} --replay {{path}}",
            "engine": "lean4-proof+correspondence",
            "level_claimed": {"category": "proof", "text": text, "design_ref": ref},
            "level_note": ASSUME,
            "technique": tech,
        })
    else:
        na.append({"property_id": i, "reason": NOT_YET.get(i, "check not built yet in this round (Lean model + correspondence in progress); not claimed until both exist")})
m = {
 "version": 1,
 "setup_cmd": "cd lean && lake build TempestVerif driver && cd .. && /venv/bin/python -m compileall -q harness translate",
 "hooks": {"guard": "TEMPEST_VERIF", "enable": "no source hooks: the harness intercepts numpy.random attributes, builtins.open/os.replace and bound methods in-process; the variable is reserved (set to 1 by ./check)",
           "baseline_off_cmd": "cd /repo && /venv/bin/python -m pytest -ra -q -p no:cacheprovider --timeout=900 --continue-on-collection-errors",
           "source_commits": [], "add_only": True},
 "engines": [{"name": "lean4-proof+correspondence", "path": "lean/ harness/ translate/ check",
              "serves_properties": sorted(CLAIMED), "kind_free_text": "Lean 4 + Mathlib theorems about executable models; models tied to /repo by AST translators (regenerated each run) and differential correspondence through a compiled line-protocol driver"}],
 "checks": checks,
 "not_applicable": na,
 "notes": "Fix commits in /repo and recorded findings: known_findings.json. See DESIGN.md.",
}
json.dump(m, open(os.path.join(HERE, "MANIFEST.json"), "w"), indent=1)
print("claimed", len(checks), "not_applicable", len(na))
