#!/usr/bin/env python3
"""Regenerates MANIFEST.json from the table below (kept in one place so it stays valid)."""
import json, os
HERE = os.path.dirname(os.path.dirname(os.path.abspath(__file__)))
ASSUME = ("Trusted: Lean 4.33 kernel + Mathlib (axioms propext, Classical.choice, Quot.sound only; audited per theorem), "
          "the hand-written model's correspondence harness (differential run of model driver vs real code in-process), "
          "translators under translate/. Theorems are in exact real arithmetic; IEEE rounding, numpy/scipy/dill internals "
          "and the OS are modelled or assumed, see DESIGN.md §3.3/§5 and the evidence file's modelled_not_verified list.")
CLAIMED = {
 # id: (technique, level text, design_ref)
 "C16": ("Lean 4 proof over a Sc-polymorphic model of apply_boundary_conditions/check_bounds + exact-dyadic (Rat) and bit-exact (Float) differential correspondence",
         "Theorems for every real x, every index list and every point: periodic = value mod 1 in [0,1), reflective = period-2 triangle fold in [0,1] (even, period 2, identity on [0,1]), idempotence, untouched coordinates, check_bounds iff, folded random-walk kernels symmetric. The same model term is executed at Rat and Float and compared exactly / bit-for-bit with the real functions on adversarial doubles, so a change of the code's function breaks the correspondence.",
         "DESIGN.md §6 C16"),
}
NOT_YET = {}
props = [json.loads(l) for l in open(os.path.join(HERE, "properties.jsonl"))]
checks, na = [], []
for p in props:
    i = p["id"]
    if i in CLAIMED:
        tech, text, ref = CLAIMED[i]
        checks.append({
            "property_id": i,
            "quick_cmd": f"./check {i} --tier quick",
            "thorough_cmd": f"./check {i} --tier thorough",
            "evidence_file": f"evidence/{i}.json",
            "replay_cmd_template": f"./check {i} --replay {{path}}",
            "engine": "lean4-proof+correspondence",
            "level_claimed": {"category": "proof", "text": text, "design_ref": ref},
            "level_note": ASSUME,
            "technique": tech,
        })
    else:
        na.append({"property_id": i, "reason": NOT_YET.get(i, "check not built yet in this round (Lean model + correspondence in progress); not claimed until both exist")})
m = {
 "version": 1,
 "setup_cmd": "cd lean && lake build TempestVerif driver && cd .. && /venv/bin/python -m compileall -q harness translate",
 "hooks": {"guard": "TEMPEST_VERIF", "enable": "no source hooks: the harness intercepts numpy.random attributes, builtins.open/os.replace and bound methods in-process; the variable is reserved (set to 1 by ./check)",
           "baseline_off_cmd": "cd /repo && /venv/bin/python -m pytest -ra -q -p no:cacheprovider --timeout=900 --continue-on-collection-errors",
           "source_commits": [], "add_only": True},
 "engines": [{"name": "lean4-proof+correspondence", "path": "lean/ harness/ translate/ check",
              "serves_properties": sorted(CLAIMED), "kind_free_text": "Lean 4 + Mathlib theorems about executable models; models tied to /repo by AST translators (regenerated each run) and differential correspondence through a compiled line-protocol driver"}],
 "checks": checks,
 "not_applicable": na,
 "notes": "Fix commits in /repo and recorded findings: known_findings.json. See DESIGN.md.",
}
json.dump(m, open(os.path.join(HERE, "MANIFEST.json"), "w"), indent=1)
print("claimed", len(checks), "not_applicable", len(na))
