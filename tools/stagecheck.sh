#!/bin/sh
# tools/stagecheck.sh <Cxx...> : export the git INDEX of /verif to /tmp/vstage/verif (keeping its .lake), build, and run the named quick checks there
set -e
mkdir -p /tmp/vstage
[ -d /tmp/vstage/verif ] && mv /tmp/vstage/verif /tmp/vstage/verif.old
mkdir -p /tmp/vstage/verif && git -C /verif checkout-index -a --prefix=/tmp/vstage/verif/
if [ -d /tmp/vstage/verif.old/lean/.lake ]; then mv /tmp/vstage/verif.old/lean/.lake /tmp/vstage/verif/lean/; else rsync -a /verif/lean/.lake /tmp/vstage/verif/lean/; fi
rm -rf /tmp/vstage/verif.old
cd /tmp/vstage/verif && (cd lean && lake build TempestVerif driver 2>&1 | grep -E "error|Build completed|✖" | head -20)
for c in "$@"; do echo $c; done | xargs -P 6 -I{} sh -c 'VERIF_SEED=${VERIF_SEED:-0} VERIF_EVIDENCE_DIR=/tmp/vstage/ev ./check {} --tier ${STAGE_TIER:-quick} > /tmp/vstage/{}.log 2>&1; echo "{} rc=$? $(tail -1 /tmp/vstage/{}.log | cut -c1-150)"'
