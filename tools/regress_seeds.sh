#!/bin/sh
# tools/regress_seeds.sh [jobs] : re-run every recorded seeded change (seeded/*/patch.diff) against the CURRENT checks.
# For each one whose patch still applies to /repo's current tree: private copy of the repo + patch, check of its property from a
# private copy of this verif tree (tools/isocheck.sh). Prints one line per seed: caught / caught(no-failing-input) / MISSED / patch-does-not-apply.
HERE="$(cd "$(dirname "$0")/.." && pwd)"
J="${1:-4}"
OUT="${REGRESS_OUT:-/tmp/regress_seeds}"; mkdir -p "$OUT"
for d in "$HERE"/seeded/*/; do echo "$d"; done | xargs -P "$J" -I{} sh -c '
  d="{}"; d=${d%/}; id=$(basename "$d"); P=$(echo "$id" | cut -c1-3); HERE="'"$HERE"'"; OUT="'"$OUT"'"
  W=$(mktemp -d /tmp/rg_XXXXXX); cp -r /repo/tempest "$W"/
  if ! (cd "$W" && patch -p1 -s --dry-run < "$d/patch.diff" >/dev/null 2>&1); then echo "$id patch-does-not-apply"; rm -rf "$W"; exit 0; fi
  (cd "$W" && patch -p1 -s < "$d/patch.diff")
  ISO_SRC="$HERE" "$HERE/tools/isocheck.sh" "$W" "$P" quick "$OUT/$id.log" > "$OUT/$id.out" 2>&1
  if grep -q "^VIOLATION.*no-failing-input-found" "$OUT/$id.log"; then echo "$id caught(no-failing-input-found)";
  elif grep -q "^VIOLATION" "$OUT/$id.log"; then echo "$id caught";
  elif grep -q "INFRASTRUCTURE" "$OUT/$id.log"; then echo "$id INFRA-ERROR";
  else echo "$id MISSED"; fi
  rm -rf "$W"'
