#!/bin/sh
# tools/headcopy.sh [files relative to /verif ...] : (re)create /tmp/vhead/verif from the committed HEAD of /verif, keep its .lake,
# and overlay the named working-tree files — a quiet place for the coordinator to run checks while workers edit /verif.
D=/tmp/vhead/verif
mkdir -p $D
[ -d $D/lean/.lake ] && mv $D/lean/.lake /tmp/vhead/.lake_keep
find $D -mindepth 1 -maxdepth 1 ! -name lean -exec rm -rf {} +
rm -rf $D/lean
git -C /verif archive HEAD | tar -x -C $D
if [ -d /tmp/vhead/.lake_keep ]; then mv /tmp/vhead/.lake_keep $D/lean/.lake; else rsync -a /verif/lean/.lake $D/lean/; fi
for f in "$@"; do mkdir -p "$D/$(dirname $f)"; cp "/verif/$f" "$D/$f"; done
echo "head copy at $D"
